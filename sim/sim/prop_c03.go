package sim

import (
	"fmt"
	"math/rand"

	"github.com/yaricom/goNEAT/v4/neat/genetics"
)

// C03 — an innovation number denotes one connection for the life of a population.

func init() {
	Register(&Scenario{
		Prop: "C03", Run: scenarioC03, QuickRuns: 7200, ThoroughRuns: 180000, Level: "exploration",
		Rule:       "one run = one seeded population followed over its whole life: a ledger of every gene and node of every organism that ever lived (innovation -> (source, target, recurrence), node id -> role); per generation: fresh numbers and ids exceed everything held before, identical structural innovations of one generation carry identical numbers (sequential executor), the innovation record is empty after the turnover; plus twin-mutation probes against the reference registry (the same structural mutation replayed on a twin must reuse the recorded numbers, near-miss records must not be reused). A case is one generation; non-trivial when it issued at least one new innovation number; distinct by (generation, new-number count, max innovation)",
		RealParts:  []string{"neat/genetics population, species, epoch executors, mutators and their innovation lookup", "Population counters and innovation list (real), read through the public Innovations() accessor"},
		StubParts:  []string{"fitness assignment", "reference innovation registry for the twin-mutation probes", "goroutine choice for parallel-executor worlds (function check only there)"},
		Assumes:    []string{"'identical innovations get identical numbers' is demanded of the sequential executor only, as the property says"},
		ProbeNames: []string{"probe.new_innovation_generation", "probe.same_link_innovation_twice", "probe.same_split_twice", "probe.twin.addnode_reused", "probe.twin.addlink_reused", "probe.nearmiss.not_reused", "probe.random_world", "probe.readback_world", "probe.modular_control_ids_permuted", "probe.modular_structural_mutation", "probe.checkpoint_restore"},
	})
}

type splitKey struct {
	In, Out int
	Rec     bool
	Old     int64
}

type splitVal struct {
	Node   int
	I1, I2 int64
}

// newStructure extracts, from a genome of the new generation, the genes and hidden nodes whose numbers were not held by
// the population before the turnover.
func generationConverse(c *RunCtx, w *World, prevMaxInnov int64, prevMaxNode int, gen int) (newNums int) {
	linkNum := map[linkKey]int64{}
	splits := map[splitKey]splitVal{}
	sameLink, sameSplit := false, false
	for oi, o := range w.Pop.Organisms {
		g := o.Genotype
		newNode := map[int]bool{}
		for _, n := range g.Nodes {
			if n.Id > prevMaxNode {
				newNode[n.Id] = true
			}
		}
		for _, gn := range g.Genes {
			if gn.InnovationNum <= prevMaxInnov {
				continue
			}
			newNums++
			k := linkKey{gn.Link.InNode.Id, gn.Link.OutNode.Id, gn.Link.IsRecurrent}
			if prev, ok := linkNum[k]; ok {
				if prev != gn.InnovationNum {
					c.Fail("same-innovation-different-numbers", "world [start=%s] generation %d (sequential executor): the new link %d->%d (recurrent %t) carries innovation number %d in one baby and %d in organism %d of the same generation",
						w.KindName, gen, k.In, k.Out, k.Rec, prev, gn.InnovationNum, oi)
				}
				sameLink = true
			} else {
				linkNum[k] = gn.InnovationNum
			}
		}
		// splits: new hidden node n with in-gene a->n and out-gene n->b, the split gene is the genome's a->b gene with the in-gene's recurrence
		for id := range newNode {
			var inG, outG *genetics.Gene
			cnt := 0
			for _, gn := range g.Genes {
				if gn.Link.OutNode.Id == id && gn.Link.InNode.Id != id {
					inG = gn
					cnt++
				}
				if gn.Link.InNode.Id == id && gn.Link.OutNode.Id != id {
					outG = gn
					cnt++
				}
			}
			if inG == nil || outG == nil || cnt != 2 {
				continue // a baby that inherited the node and more structure: not a plain split
			}
			var old *genetics.Gene
			for _, gn := range g.Genes {
				if gn.Link.InNode.Id == inG.Link.InNode.Id && gn.Link.OutNode.Id == outG.Link.OutNode.Id && gn.Link.IsRecurrent == inG.Link.IsRecurrent && gn.InnovationNum <= prevMaxInnov {
					old = gn
				}
			}
			if old == nil {
				continue
			}
			k := splitKey{inG.Link.InNode.Id, outG.Link.OutNode.Id, inG.Link.IsRecurrent, old.InnovationNum}
			v := splitVal{id, inG.InnovationNum, outG.InnovationNum}
			if prev, ok := splits[k]; ok {
				if prev != v {
					c.Fail("same-split-different-numbers", "world [start=%s] generation %d (sequential executor): splitting gene #%d (%d->%d) gave node %d with genes #%d/#%d in one baby and node %d with genes #%d/#%d in organism %d",
						w.KindName, gen, k.Old, k.In, k.Out, prev.Node, prev.I1, prev.I2, v.Node, v.I1, v.I2, oi)
				}
				sameSplit = true
			} else {
				splits[k] = v
			}
		}
	}
	if sameLink {
		c.Count("probe.same_link_innovation_twice")
	}
	if sameSplit {
		c.Count("probe.same_split_twice")
	}
	return newNums
}

func scenarioC03(c *RunCtx) {
	t := c.T
	if t.Chance("modularStart", 1, 10) {
		scenarioC03Modular(c)
		return
	}
	maxPop, maxEpochs := 30, 12
	if c.Thorough {
		maxPop, maxEpochs = 70, 50
	}
	spec := WorldSpec{
		Prof:         OptProfile{MinPop: 3, MaxPop: maxPop, AllowStolen: true, SmallDropOff: t.Chance("smallDropOff", 1, 3), Parallel: 2, ManySpecies: t.Chance("manySpecies", 1, 2), Structural: 1},
		Genome:       GenomeSpec{AllowDisabled: true, MaxHidden: 3},
		AllowRandom:  true,
		AllowShipped: true,
		AllowRead:    true,
	}
	var w *World
	c.LibSoft("construct", func() { w = NewWorld(t, spec) })
	if w.ConstructErr != nil {
		c.Skip("constructor-error")
	}
	if w.GenelessAtStart > 0 {
		c.Skip("precondition:geneless-random-genome")
	}
	switch w.Kind {
	case StartRandomPop:
		c.Count("probe.random_world")
	case StartReadBack:
		c.Count("probe.readback_world")
	}
	if w.IsParallel() {
		sched := NewSched(t)
		genetics.Verif = sched.Hooks()
		defer func() { genetics.Verif = nil }()
	}
	c.Sample = w.Describe()
	c.Op("world: %s", w.Describe())
	ledger := NewInnovLedger()
	if inv, d := ledger.AddPopulation(w.Pop, "after construction"); inv != "" {
		c.Fail(inv, "world [start=%s]: %s", w.KindName, d)
	}
	epochs := t.Range("epochs", 1, maxEpochs)
	for e := 0; e < epochs; e++ {
		prevMaxInnov, prevMaxNode := ledger.MaxInnov, ledger.MaxNode
		held := map[int64]bool{}
		heldNode := map[int]bool{}
		for _, o := range w.Pop.Organisms {
			for _, gn := range o.Genotype.Genes {
				held[gn.InnovationNum] = true
			}
			for _, n := range o.Genotype.Nodes {
				heldNode[n.Id] = true
			}
		}
		if t.Chance("twin-probe", 1, 3) {
			twinProbe(c, w, ledger)
		}
		if e > 0 && t.Chance("checkpoint", 1, 6) {
			// save / restore in mid-run: the counters of the restored population must start above everything the
			// saved genomes hold, whichever genome holds the maximum
			var cerr error
			c.LibSoft("checkpoint", func() { cerr = w.Checkpoint() })
			if cerr != nil {
				c.Skip("checkpoint-error")
			}
			c.Count("probe.checkpoint_restore")
			c.Op("checkpoint: population written and read back before epoch %d", e)
			// The saved form holds the living genomes only: numbers and ids that only extinct organisms carried are
			// unknown to the restored population and may legitimately be issued again. Its history starts here.
			ledger = NewInnovLedger()
			if inv, d := ledger.AddPopulation(w.Pop, fmt.Sprintf("world [start=%s] after the restore before generation %d", w.KindName, e)); inv != "" {
				c.Fail(inv, "%s", d)
			}
			prevMaxInnov, prevMaxNode = ledger.MaxInnov, ledger.MaxNode
		}
		snap := StepEpoch(c, w, false, nil, c.LibSoft)
		c.Steps++
		c.Op("epoch %d err=%v", e, snap.Err)
		if snap.Err != nil {
			c.Counters["abandoned.epoch-error"]++
			c.Abandon = "epoch-error"
			return
		}
		for _, o := range w.Pop.Organisms {
			if len(o.Genotype.Genes) == 0 {
				c.Skip("precondition:geneless-genome")
			}
		}
		where := fmt.Sprintf("world [start=%s] generation %d", w.KindName, e)
		if inv, d := ledger.AddPopulation(w.Pop, where); inv != "" {
			c.Fail(inv, "%s", d)
		}
		// fresh numbers and ids exceed everything the population (and its history) held before
		for oi, o := range w.Pop.Organisms {
			for _, gn := range o.Genotype.Genes {
				if !held[gn.InnovationNum] && gn.InnovationNum <= prevMaxInnov {
					c.Fail("fresh-number-not-larger", "%s: organism %d carries innovation number %d, which the previous generation did not hold and which does not exceed the largest number held before (%d)", where, oi, gn.InnovationNum, prevMaxInnov)
				}
			}
			for _, n := range o.Genotype.Nodes {
				if !heldNode[n.Id] && n.Id <= prevMaxNode {
					c.Fail("fresh-node-id-not-larger", "%s: organism %d carries node id %d, which the previous generation did not hold and which does not exceed the largest id held before (%d)", where, oi, n.Id, prevMaxNode)
				}
			}
		}
		newNums := 0
		if !w.IsParallel() {
			newNums = generationConverse(c, w, prevMaxInnov, prevMaxNode, e)
		} else if ledger.MaxInnov > prevMaxInnov {
			newNums = 1
		}
		if n := len(w.Pop.Innovations()); n != 0 {
			c.Fail("innovations-not-forgotten", "%s: %d innovation records are still held after the turnover", where, n)
		}
		h := Mix(uint64(e), uint64(newNums), uint64(ledger.MaxInnov))
		c.State(h)
		if newNums > 0 {
			c.Count("probe.new_innovation_generation")
			c.Nontrivial(h)
		}
	}
}

// twinProbe replays one structural mutation on two harness-made twins of an organism against the reference registry:
// the second application finds the record of the first and must reuse its numbers; a registry preloaded with near-miss
// records must not be reused.
func twinProbe(c *RunCtx, w *World, _ *InnovLedger) {
	t := c.T
	src := w.Pop.Organisms[t.Draw("twin.org", len(w.Pop.Organisms))].Genotype
	var all []*genetics.Genome
	for _, o := range w.Pop.Organisms {
		all = append(all, o.Genotype)
	}
	kind := t.Draw("twin.kind", 2) // 0 add node, 1 add link
	seed := int64(t.Draw("twin.libseed", 1<<31))
	reg := NewStubRegistryFor(all...)
	nearMiss := t.Chance("twin.nearmiss", 1, 2)
	a, b := CloneGenome(src, 9001), CloneGenome(src, 9002)
	apply := func(g *genetics.Genome) (ok bool, err error) {
		rand.Seed(seed)
		c.LibSoft("twin-mutation", func() {
			if kind == 0 {
				ok, err = genetics.VerifMutateAddNode(g, reg, reg, w.Opts)
			} else {
				ok, err = genetics.VerifMutateAddLink(g, reg, w.Gen, w.Opts)
			}
		})
		g.Phenotype = nil
		return
	}
	before := Canon(a)
	okA, errA := apply(a)
	if errA != nil || !okA {
		return
	}
	afterA := Canon(a)
	if nearMiss {
		// replace the record by near misses: they describe a different innovation and must not be matched
		rec := reg.Inns[len(reg.Inns)-1]
		reg.Inns = nil
		if genetics.VerifInnovationIsNode(rec) {
			reg.StoreInnovation(*genetics.NewInnovationForNode(rec.InNodeId, rec.OutNodeId, rec.InnovationNum, rec.InnovationNum2, rec.NewNodeId, rec.OldInnovNum+100000))
			reg.StoreInnovation(*genetics.NewInnovationForNode(rec.OutNodeId, rec.InNodeId+100000, rec.InnovationNum, rec.InnovationNum2, rec.NewNodeId, rec.OldInnovNum))
			reg.StoreInnovation(*genetics.NewInnovationForRecurrentLink(rec.InNodeId, rec.OutNodeId, rec.InnovationNum, 0.5, 0, false))
		} else {
			reg.StoreInnovation(*genetics.NewInnovationForRecurrentLink(rec.InNodeId, rec.OutNodeId, rec.InnovationNum, rec.NewWeight, rec.NewTraitNum, !rec.IsRecurrent))
			reg.StoreInnovation(*genetics.NewInnovationForRecurrentLink(rec.InNodeId+100000, rec.OutNodeId, rec.InnovationNum, rec.NewWeight, rec.NewTraitNum, rec.IsRecurrent))
			reg.StoreInnovation(*genetics.NewInnovationForNode(rec.InNodeId, rec.OutNodeId, rec.InnovationNum, rec.InnovationNum, 424242, 0))
		}
	}
	okB, errB := apply(b)
	if errB != nil || !okB {
		return
	}
	afterB := Canon(b)
	newOf := func(after *GenomeRec) (genes []GeneRec, nodes []int) {
		old := map[int64]bool{}
		for _, g := range before.Genes {
			old[g.Innov] = true
		}
		oldN := map[int]bool{}
		for _, n := range before.Nodes {
			oldN[n.Id] = true
		}
		for _, g := range after.Genes {
			if !old[g.Innov] {
				genes = append(genes, g)
			}
		}
		for _, n := range after.Nodes {
			if !oldN[n.Id] {
				nodes = append(nodes, n.Id)
			}
		}
		return
	}
	ga, na := newOf(afterA)
	gb, nb := newOf(afterB)
	if len(ga) == 0 || len(ga) != len(gb) {
		return
	}
	// the same RNG seed on an identical twin picks the same place: same endpoints unless node ids differ
	sameNumbers := len(na) == len(nb)
	for i := range ga {
		if ga[i].Innov != gb[i].Innov {
			sameNumbers = false
		}
	}
	for i := range na {
		if i < len(nb) && na[i] != nb[i] {
			sameNumbers = false
		}
	}
	name := []string{"addnode", "addlink"}[kind]
	if !nearMiss {
		if !sameNumbers {
			c.Fail("recorded-innovation-not-reused", "%s twice in one generation on twins of %s (libseed %d): first got genes %v nodes %v, second got genes %v nodes %v although the first was recorded",
				OpNames[OpAddNode+kind], before.Pretty(), seed, geneNums(ga), na, geneNums(gb), nb)
		}
		c.Count("probe.twin." + name + "_reused")
	} else {
		for i := range ga {
			if ga[i].Innov == gb[i].Innov {
				c.Fail("near-miss-innovation-reused", "%s on a twin of %s (libseed %d) reused innovation number %d from a record that describes a different innovation", OpNames[OpAddNode+kind], before.Pretty(), seed, gb[i].Innov)
			}
		}
		c.Count("probe.nearmiss.not_reused")
	}
}

func geneNums(gs []GeneRec) []int64 {
	var r []int64
	for _, g := range gs {
		r = append(r, g.Innov)
	}
	return r
}

// scenarioC03Modular: "for all start genomes" includes modular ones. A population spawned from a modular start genome
// whose control nodes carry ids in any order must issue node ids and innovation numbers above everything any of its
// genomes holds, control nodes and control genes included. Structural mutations are applied one by one with the
// population as registry and id source (no crossover: mating of modular genomes is outside the listed properties).
func scenarioC03Modular(c *RunCtx) {
	t := c.T
	QuietLogs()
	SeedLibrary(t)
	g := BuildModularGenome(t)
	// control-node ids in another order than the control genes (ids stay unique and above the ordinary nodes' ids)
	if n := len(g.ControlGenes); n >= 2 {
		ids := make([]int, n)
		for i, cg := range g.ControlGenes {
			ids[i] = cg.ControlNode.Id
		}
		for i := n - 1; i > 0; i-- {
			j := t.Draw("modular.permute", i+1)
			ids[i], ids[j] = ids[j], ids[i]
		}
		gap := t.Draw("modular.gap", 3) // the largest id may stand out by more than one
		maxAt := 0
		for i := range ids {
			if ids[i] > ids[maxAt] {
				maxAt = i
			}
		}
		ids[maxAt] += gap
		for i, cg := range g.ControlGenes {
			cg.ControlNode.Id = ids[i]
		}
		c.Count("probe.modular_control_ids_permuted")
	}
	opts := DrawOptions(t, OptProfile{MinPop: 3, MaxPop: 8, Parallel: 0, Structural: 1})
	c.Sample = "modular start genome: " + Canon(g).Pretty()
	var pop *genetics.Population
	var err error
	c.LibSoft("NewPopulation", func() { pop, err = genetics.NewPopulation(g, opts) })
	if err != nil || pop == nil {
		c.Skip("constructor-error")
	}
	held := func() (maxNode int, maxInnov int64) {
		for _, o := range pop.Organisms {
			for _, n := range o.Genotype.Nodes {
				if n.Id > maxNode {
					maxNode = n.Id
				}
			}
			for _, gn := range o.Genotype.Genes {
				if gn.InnovationNum > maxInnov {
					maxInnov = gn.InnovationNum
				}
			}
			for _, cg := range o.Genotype.ControlGenes {
				if cg.ControlNode.Id > maxNode {
					maxNode = cg.ControlNode.Id
				}
				if cg.InnovationNum > maxInnov {
					maxInnov = cg.InnovationNum
				}
			}
		}
		return
	}
	// everything issued later must lie above what the population held when it was spawned (a structural innovation that
	// repeats a recorded one legitimately reuses ids issued since then, never older ones)
	maxNode, maxInnov := held()
	for k := t.Range("modular.mutations", 1, 6); k > 0; k-- {
		o := pop.Organisms[t.Draw("modular.org", len(pop.Organisms))]
		before := Canon(o.Genotype)
		seedLib(int64(t.Draw("modular.libseed", 1<<31)))
		var ok bool
		var merr error
		kind := "add-node"
		if t.Chance("modular.addlink", 1, 3) {
			kind = "add-link"
			c.LibSoft(kind, func() { ok, merr = genetics.VerifMutateAddLink(o.Genotype, pop, 1, opts) })
		} else {
			c.LibSoft(kind, func() { ok, merr = genetics.VerifMutateAddNode(o.Genotype, pop, pop, opts) })
		}
		c.Steps++
		if merr != nil || !ok {
			continue
		}
		c.Count("probe.modular_structural_mutation")
		had := map[int]bool{}
		for _, n := range before.Nodes {
			had[n.Id] = true
		}
		hadInnov := map[int64]bool{}
		for _, gn := range before.Genes {
			hadInnov[gn.Innov] = true
		}
		for _, n := range o.Genotype.Nodes {
			if !had[n.Id] && n.Id <= maxNode {
				c.Fail("fresh-node-id-not-larger", "population spawned from a modular start genome: %s gave the new node the id %d, the population held the id %d when it was spawned (control nodes included)\nstart genome: %s", kind, n.Id, maxNode, Canon(g).Pretty())
			}
		}
		for _, gn := range o.Genotype.Genes {
			if !hadInnov[gn.InnovationNum] && gn.InnovationNum <= maxInnov {
				c.Fail("fresh-innovation-not-larger", "population spawned from a modular start genome: %s gave the new gene the innovation number %d, the population held %d when it was spawned (control genes included)\nstart genome: %s", kind, gn.InnovationNum, maxInnov, Canon(g).Pretty())
			}
		}
	}
	c.State(Canon(g).ShapeHash())
}
