package sim

import (
	"fmt"
	"math"

	"github.com/yaricom/goNEAT/v4/neat"
	"github.com/yaricom/goNEAT/v4/neat/genetics"
)

// C08 — speciation puts each organism in its nearest compatible species.

func init() {
	Register(&Scenario{
		Prop: "C08", Run: scenarioC08, QuickRuns: 9600, ThoroughRuns: 240000, Level: "exploration",
		Rule:       "one run = a seeded world; every speciation the library performs (population construction, ReadPopulation, every epoch turnover of both executors, and direct calls with tape-permuted batches split into several calls) is observed at its beginning (batch in arrival order, species and their representatives at that instant) and replayed afterwards step by step from the actual state: organism k must sit in a species whose representative is nearest among those under the threshold (reference distance), or have founded a species with a fresh id exactly when none was under the threshold. A case is one assignment decision; non-trivial when at least two species existed at that moment; distinct by (number of candidate species, rank pattern of the distances, outcome)",
		RealParts:  []string{"Population.speciate, createFirstSpecies, Genome.compatibility (both methods)", "NewPopulation, NewPopulationRandom, ReadPopulation, both epoch executors"},
		StubParts:  []string{"fitness assignment", "goroutine choice in parallel worlds"},
		Assumes:    []string{"'closest' is judged with the reference NEAT distance (C07's formula); ties and distances within 1e-9 (relative) of the threshold or of each other accept either outcome"},
		ProbeNames: []string{"probe.joined_nearest_of_several", "probe.founded_mid_batch", "probe.joined_species_founded_in_same_batch", "probe.direct_permuted_batch", "probe.construction_speciation", "probe.readback_speciation", "probe.random_world", "probe.method.linear", "probe.method.fast", "probe.distance_equals_threshold"},
	})
}

// checkSpeciation replays one speciate call.
func checkSpeciation(c *RunCtx, opts *neat.Options, ss *SpeciateSnap, where string, idLedger map[int]bool, maxIdSeen *int) {
	type cand struct {
		sp  *genetics.Species
		rep *GenomeRec
		g   *genetics.Genome
	}
	var cands []cand
	inList := map[*genetics.Species]int{}
	for i, sp := range ss.Species {
		inList[sp] = len(cands)
		var r *GenomeRec
		var rg *genetics.Genome
		if ss.Reps[i] != nil {
			rg = ss.Reps[i].Genotype
			r = Canon(rg)
		}
		cands = append(cands, cand{sp, r, rg})
		idLedger[sp.Id] = true
		if sp.Id > *maxIdSeen {
			*maxIdSeen = sp.Id
		}
	}
	if ss.LastSpecies > *maxIdSeen {
		*maxIdSeen = ss.LastSpecies
	}
	thr := opts.CompatThreshold
	foundedHere := map[*genetics.Species]bool{}
	for k, org := range ss.Batch {
		actual := org.Species
		if actual == nil {
			c.Fail("unassigned", "%s: organism %d of the batch has no species after speciation", where, k)
		}
		rec := Canon(org.Genotype)
		best := math.Inf(1)
		dists := make([]float64, len(cands))
		under := 0
		for j, cd := range cands {
			if cd.rep == nil {
				dists[j] = math.Inf(1)
				continue
			}
			d, _, _, _ := RefCompat(rec, cd.rep, opts.DisjointCoeff, opts.ExcessCoeff, opts.MutdiffCoeff)
			dists[j] = d
			if d == thr {
				c.Count("probe.distance_equals_threshold")
			}
			if d < thr {
				under++
				if d < best {
					best = d
				}
			}
		}
		tol := func(x float64) float64 { return 1e-9 * math.Max(1, math.Abs(x)) }
		ctx := func() string {
			s := fmt.Sprintf("%s, organism %d of %d in arrival order, threshold %.9g, method %s; distances to the %d representatives:", where, k, len(ss.Batch), thr, opts.GenCompatMethod, len(cands))
			for j, cd := range cands {
				if j < 12 {
					s += fmt.Sprintf(" [species %d: %.9g]", cd.sp.Id, dists[j])
				}
			}
			return s + "\n organism: " + rec.Pretty()
		}
		if j, existing := inList[actual]; existing {
			d := dists[j]
			if !(d < thr+tol(thr)) {
				c.Fail("joined-incompatible", "organism was put into species %d whose representative is at distance %.9g, not under the threshold\n%s", actual.Id, d, ctx())
			}
			if d == thr && cands[j].g != nil {
				// the reference distance equals the threshold exactly: "closer than" is strict, provided the library's own
				// distance is exactly the threshold too (otherwise rounding decides and either outcome is accepted)
				var dl float64
				c.Lib("compatibility", func() { dl = genetics.VerifCompatibility(org.Genotype, cands[j].g, opts) })
				if dl == thr {
					c.Fail("joined-at-threshold", "organism was put into species %d whose representative is at distance exactly %.17g = the threshold: it is not closer than the threshold, a new species had to be founded (or a closer one chosen)\n%s", actual.Id, d, ctx())
				}
			}
			if d > best+tol(best) && under > 0 {
				c.Fail("not-nearest", "organism was put into species %d (distance %.9g) although a representative at distance %.9g is closer\n%s", actual.Id, d, best, ctx())
			}
			if under >= 2 {
				c.Count("probe.joined_nearest_of_several")
			}
			if foundedHere[actual] {
				c.Count("probe.joined_species_founded_in_same_batch")
			}
		} else {
			// must be a species founded for this organism
			for j, d := range dists {
				if d < thr-tol(thr) {
					c.Fail("founded-although-compatible", "organism founded species %d although the representative of species %d is at distance %.9g, under the threshold\n%s", actual.Id, cands[j].sp.Id, d, ctx())
				}
			}
			if idLedger[actual.Id] || actual.Id <= *maxIdSeen {
				c.Fail("species-id-not-fresh", "organism founded a species with id %d, which is not fresh (largest id seen before: %d)\n%s", actual.Id, *maxIdSeen, ctx())
			}
			if len(actual.Organisms) == 0 || actual.Organisms[0] != org {
				c.Fail("founder-not-representative", "organism founded species %d but is not its first organism\n%s", actual.Id, ctx())
			}
			idLedger[actual.Id] = true
			*maxIdSeen = actual.Id
			inList[actual] = len(cands)
			cands = append(cands, cand{actual, rec, org.Genotype})
			foundedHere[actual] = true
			if k > 0 {
				c.Count("probe.founded_mid_batch")
			}
		}
		// accounting
		rank := uint64(0)
		for _, d := range dists {
			if d < thr {
				rank = rank*3 + 1
			} else {
				rank = rank*3 + 2
			}
			if rank > 1<<40 {
				break
			}
		}
		h := Mix(uint64(len(cands)), rank, b2u(foundedHere[actual]), uint64(len(rec.Genes)))
		c.State(h)
		c.Steps++
		if len(cands) >= 2 {
			c.Nontrivial(h)
		}
	}
}

func scenarioC08(c *RunCtx) {
	t := c.T
	maxPop, maxEpochs := 24, 8
	if c.Thorough {
		maxPop, maxEpochs = 60, 30
	}
	spec := WorldSpec{
		Prof:         OptProfile{MinPop: 3, MaxPop: maxPop, Parallel: 2, Structural: 1, ManySpecies: t.Chance("manySpecies", 2, 3), AllowStolen: true, IntegralCompat: true},
		Genome:       GenomeSpec{AllowDisabled: true, MaxHidden: 3},
		AllowShipped: true,
		AllowRandom:  true,
		AllowRead:    true,
	}
	// observe the speciations of the constructor too
	var constructionSnaps []*SpeciateSnap
	genetics.Verif = &genetics.VerifHooks{Observe: func(event string, pop *genetics.Population, orgs []*genetics.Organism, _ []*genetics.Species) {
		if event == "speciate.begin" {
			constructionSnaps = append(constructionSnaps, snapSpeciate(pop, orgs))
		}
	}}
	defer func() { genetics.Verif = nil }()
	var w *World
	c.LibSoft("construct", func() { w = NewWorld(t, spec) })
	genetics.Verif = nil
	if w.ConstructErr != nil {
		c.Skip("constructor-error")
	}
	if w.GenelessAtStart > 0 {
		c.Skip("precondition:geneless-random-genome")
	}
	if w.Kind == StartRandomPop {
		c.Count("probe.random_world")
	}
	c.Count("probe.method." + string(w.Opts.GenCompatMethod))
	c.Sample = w.Describe()
	c.Op("world: %s", w.Describe())
	ids := map[int]bool{}
	maxId := 0
	for i, ss := range constructionSnaps {
		// a read-back world speciates twice (NewPopulation, then ReadPopulation into a fresh population): separate id spaces
		if i > 0 {
			ids, maxId = map[int]bool{}, 0
			c.Count("probe.readback_speciation")
		}
		c.Count("probe.construction_speciation")
		checkSpeciation(c, w.Opts, ss, fmt.Sprintf("world [start=%s] speciation #%d during construction", w.KindName, i), ids, &maxId)
	}
	if w.IsParallel() {
		sched := NewSched(t)
		genetics.Verif = sched.Hooks()
	}
	epochs := t.Range("epochs", 0, maxEpochs)
	for e := 0; e < epochs; e++ {
		snap := StepEpoch(c, w, false, nil, c.LibSoft)
		c.Op("epoch %d err=%v", e, snap.Err)
		if snap.Err != nil {
			c.Counters["abandoned.epoch-error"]++
			return
		}
		for _, o := range w.Pop.Organisms {
			if len(o.Genotype.Genes) == 0 {
				c.Skip("precondition:geneless-genome")
			}
		}
		for _, ss := range snap.Speciations {
			checkSpeciation(c, w.Opts, ss, fmt.Sprintf("world [start=%s] turnover of generation %d", w.KindName, e), ids, &maxId)
		}
	}
	genetics.Verif = nil
	// direct calls: a fresh population, organisms built from harness copies of the evolved genomes, arrival order
	// permuted by the tape, delivered in 1..3 calls; a different threshold / method may be drawn
	if t.Chance("direct", 2, 3) {
		c.Count("probe.direct_permuted_batch")
		o := *w.Opts
		if t.Chance("direct.newthr", 1, 2) {
			o.CompatThreshold = t.FloatRange("direct.thr", 0.2, 6)
		}
		if t.Chance("direct.flipmethod", 1, 2) {
			if o.GenCompatMethod == neat.GenomeCompatibilityMethodFast {
				o.GenCompatMethod = neat.GenomeCompatibilityMethodLinear
			} else {
				o.GenCompatMethod = neat.GenomeCompatibilityMethodFast
			}
		}
		n := len(w.Pop.Organisms)
		perm := make([]int, n)
		for i := range perm {
			perm[i] = i
		}
		for i := n - 1; i > 0; i-- {
			j := t.Draw("direct.perm", i+1)
			perm[i], perm[j] = perm[j], perm[i]
		}
		var orgs []*genetics.Organism
		for i, pi := range perm {
			org, _ := genetics.NewOrganism(1, CloneGenome(w.Pop.Organisms[pi].Genotype, i), 1)
			orgs = append(orgs, org)
		}
		pop := genetics.VerifNewEmptyPopulation(1000000, 100000)
		ctx := neat.NewContext(w.Ctx, &o)
		dids := map[int]bool{}
		dmax := 0
		calls := t.Range("direct.calls", 1, 3)
		start := 0
		for k := 0; k < calls && start < n; k++ {
			end := n
			if k < calls-1 {
				end = start + 1 + t.Draw("direct.cut", n-start)
			}
			batch := orgs[start:end]
			ss := snapSpeciate(pop, batch)
			var err error
			c.Lib("speciate", func() { err = genetics.VerifSpeciate(pop, ctx, batch) })
			if err != nil {
				c.Fail("speciate-error", "direct speciate call returned %v", err)
			}
			checkSpeciation(c, &o, ss, fmt.Sprintf("direct speciate call %d (organisms %d..%d of a permuted population, threshold %.6g)", k, start, end-1, o.CompatThreshold), dids, &dmax)
			start = end
		}
	}
}
