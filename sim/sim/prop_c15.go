package sim

import (
	"errors"
	"fmt"
	"math"
	"regexp"
	"strings"
	"time"

	"github.com/yaricom/goNEAT/v4/experiment"
	"github.com/yaricom/goNEAT/v4/neat/genetics"
	neatmath "github.com/yaricom/goNEAT/v4/neat/math"
	"github.com/yaricom/goNEAT/v4/neat/network"
)

// C15 — everything the library writes it reads back unchanged.
//
// The reader and writer arguments are the simulated disk. Three configurations, kept apart so that the relaxation
// under faults hides no ordinary bug:
//   clean       — the writer never fails; the reader fragments the data in every legal way. Read-back must be equal.
//   write-fault — the device fails from byte k on (a torn prefix reaches the disk). The write call must report an
//                 error; a nil error is an acknowledgement, and then the bytes on the disk must read back equal.
//   transient   — as write-fault, but only the one write call that reaches byte k fails; the device then recovers (a
//                 writer that forgets the error of an inner call would finish "successfully" with a hole in the data).
//   read-fault  — the device reports an I/O error after k bytes. The read call must report an error; a nil error is
//                 an acknowledgement, and then the object must equal the original.

func init() {
	Register(&Scenario{
		Prop: "C15", Run: scenarioC15, QuickRuns: 9000, ThoroughRuns: 1500000, Level: "fault_enumeration",
		Rule:       "one run = one simulated world evolved for 0..N epochs (activation swarm, disabled / recurrent genes, nil traits, float64 weights produced by mutation plus tape-chosen extreme but finite weights) or one simulated experiment; its objects are written to and read back from the simulated disk: plain genome, YAML genome (also modular), Organism.MarshalBinary/UnmarshalBinary (also with the binary form held by the caller while other organisms are marshalled), Population.Write and WriteBySpecies/ReadPopulation, fast-solver WriteModel/ReadFMNSModel (outputs over an activation history compared bit for bit), Experiment.Write/Read (records and derived statistics). Clean configuration: reads are fragmented (whole / 1 byte / random short reads / last chunk together with EOF). Fault configurations: the writer fails at byte k, or the reader fails after k bytes; the call must return an error, a nil error is an acknowledgement and then the result must be equal. Some runs sweep k over every byte (small objects) or around every 4096-byte buffer boundary. A case is one round trip; non-trivial when the object has a disabled or recurrent gene, a nil trait, a non-default activation, a module, or a fault fired inside the call; distinct by (kind, object hash, read mode, fault offset)",
		RealParts:  []string{"genetics.NewGenomeWriter / NewGenomeReader (plain, YAML), Genome.Write / ReadGenome, Organism.MarshalBinary / UnmarshalBinary, Population.Write / ReadPopulation", "network.FastModularNetworkSolver.WriteModel / ReadFMNSModel", "experiment.Experiment.Write / Read with Trial / Generation / champion gob encoding", "bufio, encoding/json, encoding/gob, yaml.v3"},
		StubParts:  []string{"disk: in-memory io.Reader / io.Writer with tape-chosen fragmentation and failure byte", "GenerationEvaluator of the simulated experiment (scripted)", "wall clock of the simulated experiment (fake clock)"},
		FaultKinds: []string{"fault.write_error", "fault.write_error_transient", "fault.read_error", "fault.short_reads", "fault.one_byte_reads", "fault.eof_with_data"},
		Assumes:    []string{"weights, trait parameters and fitness values are finite float64 (NaN / Inf are not reachable by the operators from finite start values within the documented option ranges)", "generation records carry a champion, as every record made by an evaluator that fills the generation statistics does (Generation.Encode omits a nil champion while Decode expects one: observed and counted, not judged)", "Trial.Duration and the champion's species are not part of the saved form (the statement lists trials, generations, champions and the fitness / complexity / diversity / winner statistics)", "a fast solver whose folded bias sum overflowed to infinity (only reachable with the planted extreme weights) cannot be expressed in JSON and is skipped", "nothing is demanded of reads of torn data (a write that reported its error): counted only"},
		ProbeNames: []string{"probe.rt.plain", "probe.rt.yaml", "probe.rt.yaml_modular", "probe.rt.organism", "probe.organism_after_turnover", "probe.rt.population", "probe.rt.fastsolver", "probe.rt.fastsolver_modular", "probe.rt.experiment", "probe.genome.disabled", "probe.genome.recurrent", "probe.genome.nil_trait", "probe.genome.nondefault_activation", "probe.weight.extreme", "probe.sweep", "probe.write_fault.error_reported", "probe.read_fault.error_reported", "probe.experiment.cut_short", "probe.record_surgery"},
	})
}

var negZero = regexp.MustCompile(`\b8000000000000000\b`)

// extreme but finite float64 values that a weight or a trait parameter may legally hold
var extremeFloats = []float64{
	math.SmallestNonzeroFloat64, -math.SmallestNonzeroFloat64, 2.2250738585072014e-308, 1e-310, math.MaxFloat64, -math.MaxFloat64, 1e300, -1e300,
	0.1 + 0.2, 1.0 / 3.0, -2.0 / 3.0, 1e21, 1e-7, 123456789.12345678, 9007199254740993, 0.30000000000000004, 5e-324, 1.7976931348623157e308,
	math.Pi, -math.E, 1e15 + 0.3, 4.35, 0.000001, 100000, 1e6, 1e20, 1e22, math.Copysign(0, -1), 0, 1, -1, 2, 1e3,
}

// io kinds
const (
	ioPlain = iota
	ioYAML
	ioOrganism
	ioPopulation
	ioFast
	ioExperiment
	numIoKinds
)

var ioKindNames = []string{"plain-genome", "yaml-genome", "organism-binary", "population", "fast-solver-model", "experiment"}

// ioCfg is the disk configuration of one round trip.
type ioCfg struct {
	mode    int // 0 clean, 1 write fault, 2 read fault
	failAt  int
	newRead func(data []byte) *SimReader
}

type ioOutcome struct {
	wErr, rErr error
	wrote      []byte
	diff       string // "" = equal
	readMode   string
	faultFired bool
}

// roundTrip is one write + read through the simulated disk. write and read are the library calls; equal compares.
type ioObject struct {
	kind  int
	desc  string
	hash  uint64
	write func(w *SimWriter) error
	// read reads from r and returns "" when the result equals the original, otherwise the first difference
	read func(r *SimReader) (string, error)
}

func (c *RunCtx) ioRoundTrip(o *ioObject, mode, failAt int, readDraw func(data []byte) *SimReader) *ioOutcome {
	out := &ioOutcome{}
	w := NewSimWriter(-1)
	if mode == 1 || mode == 3 {
		w.FailAt = failAt
		w.Transient = mode == 3
	}
	c.Lib("write:"+ioKindNames[o.kind], func() { out.wErr = o.write(w) })
	out.wrote = w.Buf
	if mode == 1 || mode == 3 {
		out.faultFired = w.Failed
	}
	if out.wErr != nil && mode != 1 && mode != 3 {
		return out
	}
	if out.wErr != nil {
		// the write reported its failure: torn data on the disk, nothing is demanded of reading it (counted)
		return out
	}
	r := readDraw(w.Buf)
	if mode == 2 {
		r.FailAt = failAt
	}
	out.readMode = r.ModeName()
	if (mode == 1 || mode == 3) && w.Failed {
		// acknowledged although the device failed: whatever reading does, a panic included, is the write's fault
		defer func() {
			if rec := recover(); rec != nil {
				if _, ok := rec.(stopRun); ok {
					panic(rec)
				}
				out.diff = fmt.Sprintf("reading the acknowledged bytes panics: %v", rec)
			}
		}()
		out.diff, out.rErr = o.read(r)
		return out
	}
	c.Lib("read:"+ioKindNames[o.kind], func() { out.diff, out.rErr = o.read(r) })
	if mode == 2 {
		out.faultFired = r.Failed
	}
	switch r.mode {
	case ReadByte:
		c.Count("fault.one_byte_reads")
	case ReadShort:
		if r.Short > 0 {
			c.Count("fault.short_reads")
		}
	case ReadChunkEOF:
		c.Count("fault.eof_with_data")
	}
	return out
}

// judge applies the C15 oracle to one outcome.
func (c *RunCtx) ioJudge(o *ioObject, mode, failAt int, out *ioOutcome) {
	name := ioKindNames[o.kind]
	c.Steps++
	switch mode {
	case 0:
		if out.wErr != nil {
			c.Fail("write-error:"+name, "writing %s to a healthy device failed: %v", o.desc, out.wErr)
		}
		if out.rErr != nil {
			c.Fail("read-error:"+name, "reading back %s (%d bytes, reader mode %s) failed: %v\nwritten form (excerpt): %s", o.desc, len(out.wrote), out.readMode, out.rErr, excerptBytes(out.wrote, 600))
		}
		if out.diff != "" {
			c.Fail("roundtrip:"+name, "%s does not read back equal (reader mode %s): %s\nwritten form (excerpt): %s", o.desc, out.readMode, out.diff, excerptBytes(out.wrote, 600))
		}
	case 1, 3:
		if !out.faultFired {
			// the failure byte lies beyond what the call wrote: a clean round trip
			c.ioJudge(o, 0, failAt, out)
			return
		}
		if mode == 3 {
			c.Count("fault.write_error_transient")
		} else {
			c.Count("fault.write_error")
		}
		if out.wErr != nil {
			c.Count("probe.write_fault.error_reported")
			if !errors.Is(out.wErr, ErrSimDisk) {
				c.Count("observe.write_fault.error_not_wrapped")
			}
			return
		}
		// acknowledged: the bytes on the disk must read back equal
		if out.rErr != nil || out.diff != "" {
			c.Fail("write-error-swallowed:"+name, "the device failed (%s) at byte %d while writing %s, the write call returned nil (acknowledged) and the %d bytes on the disk do not read back equal: read error %v, difference %q", []string{"", "and stayed failed", "", "for one write call"}[mode], failAt, o.desc, len(out.wrote), out.rErr, out.diff)
		}
		c.Count("observe.write_fault.acknowledged_and_readable")
	case 2:
		if out.wErr != nil {
			c.Fail("write-error:"+name, "writing %s to a healthy device failed: %v", o.desc, out.wErr)
		}
		if !out.faultFired {
			c.ioJudge(o, 0, failAt, out)
			return
		}
		c.Count("fault.read_error")
		if out.rErr != nil {
			c.Count("probe.read_fault.error_reported")
			return
		}
		if out.diff != "" {
			c.Fail("read-error-swallowed:"+name, "the device failed after %d of %d bytes while reading %s (reader mode %s), the read call returned nil (acknowledged) and the object differs: %s", failAt, len(out.wrote), o.desc, out.readMode, out.diff)
		}
		c.Count("observe.read_fault.acknowledged_and_equal")
	}
}

func excerptBytes(b []byte, n int) string {
	if len(b) > n {
		return string(b[:n]) + "…"
	}
	return string(b)
}

// ---------- objects ----------

func genomeDiff(want *GenomeRec, got *genetics.Genome, withId bool) string {
	if got == nil {
		return "no genome returned"
	}
	// negative and positive zero are the same weight (YAML writes -0 and reads an integer 0 back): not distinguished
	a, b := negZero.ReplaceAllString(want.Dump(withId), "0"), negZero.ReplaceAllString(Canon(got).Dump(withId), "0")
	if a == b {
		return ""
	}
	return "genome: " + FirstDiff(a, b) + " (original vs read back; floats as bit patterns)"
}

func plainGenomeObject(g *genetics.Genome, viaStub bool) *ioObject {
	rec := Canon(g)
	o := &ioObject{kind: ioPlain, desc: "genome [" + rec.Pretty() + "] (plain)", hash: rec.Hash()}
	o.write = func(w *SimWriter) error {
		if viaStub {
			return g.Write(w)
		}
		wr, err := genetics.NewGenomeWriter(w, genetics.PlainGenomeEncoding)
		if err != nil {
			return err
		}
		return wr.WriteGenome(g)
	}
	o.read = func(r *SimReader) (string, error) {
		if viaStub {
			got, err := genetics.ReadGenome(r, g.Id)
			if err != nil {
				return "", err
			}
			return genomeDiff(rec, got, true), nil
		}
		rd, err := genetics.NewGenomeReader(r, genetics.PlainGenomeEncoding)
		if err != nil {
			return "", err
		}
		got, err := rd.Read()
		if err != nil {
			return "", err
		}
		return genomeDiff(rec, got, true), nil
	}
	return o
}

func yamlGenomeObject(g *genetics.Genome) *ioObject {
	rec := Canon(g)
	o := &ioObject{kind: ioYAML, desc: "genome [" + rec.Pretty() + fmt.Sprintf(" modules=%d] (YAML)", len(g.ControlGenes)), hash: Mix(rec.Hash(), 7)}
	o.write = func(w *SimWriter) error {
		wr, err := genetics.NewGenomeWriter(w, genetics.YAMLGenomeEncoding)
		if err != nil {
			return err
		}
		return wr.WriteGenome(g)
	}
	o.read = func(r *SimReader) (string, error) {
		rd, err := genetics.NewGenomeReader(r, genetics.YAMLGenomeEncoding)
		if err != nil {
			return "", err
		}
		got, err := rd.Read()
		if err != nil {
			return "", err
		}
		return genomeDiff(rec, got, true), nil
	}
	return o
}

// organismObject: with others, the caller holds the binary form of org while it marshals the others (a caller that
// collects the forms of several organisms before it sends or stores them); the form it holds must still be org's.
func organismObject(org *genetics.Organism, others ...*genetics.Organism) *ioObject {
	rec := Canon(org.Genotype)
	fit, gen := org.Fitness, org.Generation
	view := genetics.VerifOrganismView(org)
	o := &ioObject{kind: ioOrganism, desc: fmt.Sprintf("organism fitness=%v generation=%d genome [%s]", fit, gen, rec.Pretty()), hash: Mix(rec.Hash(), math.Float64bits(fit), uint64(gen))}
	o.write = func(w *SimWriter) error {
		data, err := org.MarshalBinary()
		if err != nil {
			return err
		}
		for _, other := range others {
			if _, err := other.MarshalBinary(); err != nil {
				return err
			}
		}
		_, err = w.Write(data)
		return err
	}
	if len(others) > 0 {
		o.desc += fmt.Sprintf(" (its binary form held while %d other organism(s) were marshalled)", len(others))
		o.hash = Mix(o.hash, uint64(len(others)), 0x77)
	}
	o.read = func(r *SimReader) (string, error) {
		// the binary form travels as a byte slice: the device delivers it (with its faults), the library decodes it
		var data []byte
		buf := make([]byte, 512)
		for {
			n, err := r.Read(buf)
			data = append(data, buf[:n]...)
			if err != nil {
				if r.Failed {
					return "", err
				}
				break
			}
		}
		got := &genetics.Organism{}
		if err := got.UnmarshalBinary(data); err != nil {
			return "", err
		}
		if d := genomeDiff(rec, got.Genotype, true); d != "" {
			return d, nil
		}
		if math.Float64bits(got.Fitness) != math.Float64bits(fit) {
			return fmt.Sprintf("fitness %v (bits %x) read back as %v (bits %x)", fit, math.Float64bits(fit), got.Fitness, math.Float64bits(got.Fitness)), nil
		}
		if got.Generation != gen {
			return fmt.Sprintf("generation %d read back as %d", gen, got.Generation), nil
		}
		gv := genetics.VerifOrganismView(got)
		if math.Float64bits(gv.HighestFitness) != math.Float64bits(view.HighestFitness) || gv.IsPopulationChampionChild != view.IsPopulationChampionChild {
			return fmt.Sprintf("champion-child bookkeeping (highest fitness %v, is champion child %t) read back as (%v, %t)", view.HighestFitness, view.IsPopulationChampionChild, gv.HighestFitness, gv.IsPopulationChampionChild), nil
		}
		return "", nil
	}
	return o
}

func populationObject(w *World, bySpecies bool) *ioObject {
	pop := w.Pop
	var recs []*GenomeRec
	h := uint64(len(pop.Organisms))
	for _, org := range pop.Organisms {
		r := Canon(org.Genotype)
		recs = append(recs, r)
		h = Mix(h, r.Hash())
	}
	o := &ioObject{kind: ioPopulation, desc: fmt.Sprintf("population of %d genomes (%s)", len(recs), w.KindName), hash: h}
	o.write = func(sw *SimWriter) error { return pop.Write(sw) }
	if bySpecies {
		// the other writer of whole populations: species by species with comment lines in between, organisms in the
		// writer's own order; the reader is the same, so the genomes must come back (matched by their unique ids)
		o.desc += " written species by species"
		o.hash = Mix(h, 0xb5)
		o.write = func(sw *SimWriter) error { return pop.WriteBySpecies(sw) }
	}
	o.read = func(r *SimReader) (string, error) {
		got, err := genetics.ReadPopulation(r, w.Opts)
		if err != nil {
			return "", err
		}
		if len(got.Organisms) != len(recs) {
			return fmt.Sprintf("%d genomes were written, %d were read back", len(recs), len(got.Organisms)), nil
		}
		if bySpecies {
			for i, rec := range recs {
				n := 0
				for _, org := range got.Organisms {
					if org.Genotype.Id != rec.Id {
						continue
					}
					n++
					if d := genomeDiff(rec, org.Genotype, true); d != "" {
						return fmt.Sprintf("genome #%d (id %d) of the population: %s", i, rec.Id, d), nil
					}
				}
				if n != 1 {
					return fmt.Sprintf("genome #%d (id %d) of the population was read back %d times", i, rec.Id, n), nil
				}
			}
			return "", nil
		}
		for i, org := range got.Organisms {
			if d := genomeDiff(recs[i], org.Genotype, true); d != "" {
				return fmt.Sprintf("genome #%d of the population: %s", i, d), nil
			}
		}
		return "", nil
	}
	return o
}

func fastSolverObject(c *RunCtx, g *genetics.Genome, ops []netOp) *ioObject {
	rec := Canon(g)
	net, err := GenesisCopy(g)
	if err != nil {
		return nil
	}
	mk := func() (*network.FastModularNetworkSolver, error) {
		s, err := net.FastNetworkSolver()
		if err != nil {
			return nil, err
		}
		fs, ok := s.(*network.FastModularNetworkSolver)
		if !ok {
			return nil, fmt.Errorf("FastNetworkSolver returned %T", s)
		}
		return fs, nil
	}
	orig, err := mk()
	if err != nil {
		c.Count("skipped.fastsolver-not-available")
		return nil
	}
	// the reference observations come from a twin solver built from the same network
	var want []obs
	twin, err := mk()
	if err != nil {
		return nil
	}
	func() {
		defer func() {
			if r := recover(); r != nil {
				want = nil
			}
		}()
		for _, op := range ops {
			want = append(want, applyFast(twin, op))
		}
	}()
	if want == nil {
		c.Count("skipped.fastsolver-panics-on-history") // not C15's business
		return nil
	}
	o := &ioObject{kind: ioFast, desc: fmt.Sprintf("fast solver of genome [%s modules=%d]", rec.Pretty(), len(g.ControlGenes)), hash: Mix(rec.Hash(), 11)}
	// planted extreme weights on two bias links of one neuron can sum to an infinite folded bias, which JSON cannot
	// express: such a solver is outside the finite-parameter assumption (counted, not judged)
	if err := orig.WriteModel(NewSimWriter(-1)); err != nil && strings.Contains(err.Error(), "unsupported value") {
		c.Count("skipped.fastsolver_nonfinite_parameter")
		return nil
	}
	o.write = func(w *SimWriter) error { return orig.WriteModel(w) }
	o.read = func(r *SimReader) (string, error) {
		got, err := network.ReadFMNSModel(r)
		if err != nil {
			return "", err
		}
		if got.NodeCount() != orig.NodeCount() || got.LinkCount() != orig.LinkCount() {
			return fmt.Sprintf("solver with %d nodes / %d links read back with %d / %d", orig.NodeCount(), orig.LinkCount(), got.NodeCount(), got.LinkCount()), nil
		}
		if got.Id != orig.Id || got.Name != orig.Name {
			return fmt.Sprintf("solver id/name (%d, %q) read back as (%d, %q)", orig.Id, orig.Name, got.Id, got.Name), nil
		}
		for i, op := range ops {
			ob := applyFast(got, op)
			if !ob.equal(want[i]) {
				return fmt.Sprintf("after step %d %s the restored solver reports (ok=%t err=%q outputs=%v), the original (ok=%t err=%q outputs=%v)", i, op, ob.res, ob.err, floats(ob.outs), want[i].res, want[i].err, floats(want[i].outs)), nil
			}
		}
		return "", nil
	}
	return o
}

func floatsDiff(name string, a, b experiment.Floats) string {
	if len(a) != len(b) {
		return fmt.Sprintf("%s has %d values, read back %d", name, len(a), len(b))
	}
	for i := range a {
		if math.Float64bits(a[i]) != math.Float64bits(b[i]) && !(math.IsNaN(a[i]) && math.IsNaN(b[i])) {
			return fmt.Sprintf("%s[%d] = %v, read back %v", name, i, a[i], b[i])
		}
	}
	return ""
}

func sameF(a, b float64) bool {
	return math.Float64bits(a) == math.Float64bits(b) || (math.IsNaN(a) && math.IsNaN(b))
}

// expSnapshot holds what a saved experiment must restore, taken before writing.
type genSnap struct {
	Id, TrialId, Diversity, WinnerEvals, WinnerNodes, WinnerGenes int
	Executed                                                      time.Time
	Duration                                                      time.Duration
	Solved                                                        bool
	Fitness, Age, Complexity                                      experiment.Floats
	HasChamp                                                      bool
	ChFitness, ChExpected, ChError                                float64
	ChWinner                                                      bool
	ChGeneration                                                  int
	ChGenome                                                      *GenomeRec
}

type trialSnap struct {
	Id                                       int
	Gens                                     []genSnap
	ChampFit, ChampCx, Div, AvgF, AvgA, AvgC experiment.Floats
	WN, WG, WE, WD                           int
	Solved                                   bool
}

type expSnap struct {
	Id                              int
	Name                            string
	Trials                          []trialSnap
	BestFit, BestCx, AvgDiv, Epochs experiment.Floats
	SolvedN                         int
	Rate                            float64
	AN, AG, AE, AD                  float64
	AnySolved                       bool
	BestInfo                        []string // what the best organisms looked like when the snapshot was taken
}

func copyFloats(x experiment.Floats) experiment.Floats { return append(experiment.Floats(nil), x...) }

func snapExperiment(e *experiment.Experiment) *expSnap {
	s := &expSnap{Id: e.Id, Name: e.Name}
	for ti := range e.Trials {
		tr := &e.Trials[ti]
		ts := trialSnap{Id: tr.Id}
		for gi := range tr.Generations {
			g := &tr.Generations[gi]
			gs := genSnap{Id: g.Id, TrialId: g.TrialId, Diversity: g.Diversity, WinnerEvals: g.WinnerEvals, WinnerNodes: g.WinnerNodes, WinnerGenes: g.WinnerGenes,
				Executed: g.Executed, Duration: g.Duration, Solved: g.Solved, Fitness: copyFloats(g.Fitness), Age: copyFloats(g.Age), Complexity: copyFloats(g.Complexity)}
			if ch := g.Champion; ch != nil {
				gs.HasChamp = true
				gs.ChFitness, gs.ChExpected, gs.ChError, gs.ChWinner, gs.ChGeneration = ch.Fitness, ch.ExpectedOffspring, ch.Error, ch.IsWinner, ch.Generation
				gs.ChGenome = Canon(ch.Genotype)
			}
			ts.Gens = append(ts.Gens, gs)
		}
		ts.ChampFit, ts.ChampCx, ts.Div = copyFloats(tr.ChampionsFitness()), copyFloats(tr.ChampionsComplexities()), copyFloats(tr.Diversity())
		ts.AvgF, ts.AvgA, ts.AvgC = tr.Average()
		cp := *tr // WinnerStatistics caches a pointer on its receiver; ask a copy so that the record is left as found
		ts.WN, ts.WG, ts.WE, ts.WD = cp.WinnerStatistics()
		ts.Solved = tr.Solved()
		s.Trials = append(s.Trials, ts)
	}
	for ti := range e.Trials {
		if org, ok := e.Trials[ti].BestOrganism(false); ok && org != nil && org.Genotype != nil {
			ph, err := org.Phenotype()
			info := fmt.Sprintf("trial %d best: genome %d nodes, %d genes, %d enabled, generation mark %d", ti, len(org.Genotype.Nodes), len(org.Genotype.Genes), org.Genotype.Extrons(), org.Generation)
			if err == nil && ph != nil {
				info += fmt.Sprintf("; its phenotype: %d nodes, %d links", ph.NodeCount(), ph.LinkCount())
			}
			s.BestInfo = append(s.BestInfo, info)
		}
	}
	s.BestFit, s.BestCx, s.AvgDiv, s.Epochs = copyFloats(e.BestFitness()), copyFloats(e.BestComplexity()), copyFloats(e.AvgDiversity()), copyFloats(e.EpochsPerTrial())
	s.SolvedN, s.Rate, s.AnySolved = e.TrialsSolved(), e.SuccessRate(), e.Solved()
	s.AN, s.AG, s.AE, s.AD = e.AvgWinnerStatistics()
	return s
}

func (s *expSnap) diff(e *experiment.Experiment) string {
	if e.Id != s.Id || e.Name != s.Name {
		return fmt.Sprintf("experiment (id %d, name %q) read back as (%d, %q)", s.Id, s.Name, e.Id, e.Name)
	}
	if len(e.Trials) != len(s.Trials) {
		return fmt.Sprintf("%d trials were saved, %d were restored", len(s.Trials), len(e.Trials))
	}
	for ti := range s.Trials {
		ts, tr := &s.Trials[ti], &e.Trials[ti]
		if tr.Id != ts.Id {
			return fmt.Sprintf("trial #%d: id %d read back as %d", ti, ts.Id, tr.Id)
		}
		if len(tr.Generations) != len(ts.Gens) {
			return fmt.Sprintf("trial #%d: %d generations were saved, %d were restored", ti, len(ts.Gens), len(tr.Generations))
		}
		for gi := range ts.Gens {
			gs, g := &ts.Gens[gi], &tr.Generations[gi]
			where := fmt.Sprintf("trial #%d generation #%d", ti, gi)
			if g.Id != gs.Id || g.TrialId != gs.TrialId || g.Diversity != gs.Diversity || g.WinnerEvals != gs.WinnerEvals || g.WinnerNodes != gs.WinnerNodes || g.WinnerGenes != gs.WinnerGenes || g.Solved != gs.Solved {
				return fmt.Sprintf("%s: (id %d, trial %d, diversity %d, winner evals/nodes/genes %d/%d/%d, solved %t) read back as (%d, %d, %d, %d/%d/%d, %t)", where,
					gs.Id, gs.TrialId, gs.Diversity, gs.WinnerEvals, gs.WinnerNodes, gs.WinnerGenes, gs.Solved, g.Id, g.TrialId, g.Diversity, g.WinnerEvals, g.WinnerNodes, g.WinnerGenes, g.Solved)
			}
			if !g.Executed.Equal(gs.Executed) {
				return fmt.Sprintf("%s: execution instant %v read back as %v", where, gs.Executed, g.Executed)
			}
			if g.Duration != gs.Duration {
				return fmt.Sprintf("%s: duration %v read back as %v", where, gs.Duration, g.Duration)
			}
			for _, x := range []struct {
				n    string
				a, b experiment.Floats
			}{{"Fitness", gs.Fitness, g.Fitness}, {"Age", gs.Age, g.Age}, {"Complexity", gs.Complexity, g.Complexity}} {
				if d := floatsDiff(where+" "+x.n, x.a, x.b); d != "" {
					return d
				}
			}
			if gs.HasChamp {
				ch := g.Champion
				if ch == nil {
					return where + ": the champion was not restored"
				}
				if !sameF(ch.Fitness, gs.ChFitness) || !sameF(ch.ExpectedOffspring, gs.ChExpected) || !sameF(ch.Error, gs.ChError) || ch.IsWinner != gs.ChWinner || ch.Generation != gs.ChGeneration {
					return fmt.Sprintf("%s champion: (fitness %v, expected offspring %v, error %v, winner %t, generation %d) read back as (%v, %v, %v, %t, %d)", where,
						gs.ChFitness, gs.ChExpected, gs.ChError, gs.ChWinner, gs.ChGeneration, ch.Fitness, ch.ExpectedOffspring, ch.Error, ch.IsWinner, ch.Generation)
				}
				if d := genomeDiff(gs.ChGenome, ch.Genotype, true); d != "" {
					return where + " champion " + d
				}
			}
		}
		for _, x := range []struct {
			n    string
			a, b experiment.Floats
		}{{"ChampionsFitness", ts.ChampFit, tr.ChampionsFitness()}, {"ChampionsComplexities", ts.ChampCx, tr.ChampionsComplexities()}, {"Diversity", ts.Div, tr.Diversity()}} {
			if d := floatsDiff(fmt.Sprintf("trial #%d %s()", ti, x.n), x.a, x.b); d != "" {
				return d
			}
		}
		f, a, cx := tr.Average()
		if d := floatsDiff(fmt.Sprintf("trial #%d Average() fitness", ti), ts.AvgF, f); d != "" {
			return d
		}
		if d := floatsDiff(fmt.Sprintf("trial #%d Average() age", ti), ts.AvgA, a); d != "" {
			return d
		}
		if d := floatsDiff(fmt.Sprintf("trial #%d Average() complexity", ti), ts.AvgC, cx); d != "" {
			return d
		}
		cp := *tr
		wn, wg, we, wd := cp.WinnerStatistics()
		if wn != ts.WN || wg != ts.WG || we != ts.WE || wd != ts.WD || tr.Solved() != ts.Solved {
			return fmt.Sprintf("trial #%d: WinnerStatistics() (%d, %d, %d, %d) solved=%t read back as (%d, %d, %d, %d) solved=%t", ti, ts.WN, ts.WG, ts.WE, ts.WD, ts.Solved, wn, wg, we, wd, tr.Solved())
		}
	}
	for _, x := range []struct {
		n    string
		a, b experiment.Floats
	}{{"BestFitness", s.BestFit, e.BestFitness()}, {"BestComplexity", s.BestCx, e.BestComplexity()}, {"AvgDiversity", s.AvgDiv, e.AvgDiversity()}, {"EpochsPerTrial", s.Epochs, e.EpochsPerTrial()}} {
		if x.n == "BestComplexity" {
			// where several generation champions of a trial tie for the best fitness, which of them is "the best" is
			// open (the tie-break looks at bookkeeping that is not part of the saved form): such trials are not compared
			a2, b2 := copyFloats(x.a), copyFloats(x.b)
			for ti := range e.Trials {
				best, n := math.Inf(-1), 0
				for gi := range e.Trials[ti].Generations {
					if ch := e.Trials[ti].Generations[gi].Champion; ch != nil {
						switch {
						case ch.Fitness > best:
							best, n = ch.Fitness, 1
						case ch.Fitness == best:
							n++
						}
					}
				}
				if n > 1 && ti < len(a2) && ti < len(b2) {
					a2[ti], b2[ti] = 0, 0
				}
			}
			x.a, x.b = a2, b2
		}
		if d := floatsDiff(x.n+"()", x.a, x.b); d != "" {
			if x.n == "BestComplexity" {
				// say what the restored champions look like: the complexity is nodes + links of the champion's phenotype
				for ti := range e.Trials {
					if org, ok := e.Trials[ti].BestOrganism(false); ok && org != nil && org.Genotype != nil {
						d += fmt.Sprintf("; restored best of trial %d: genome %d nodes, %d genes, %d enabled", ti, len(org.Genotype.Nodes), len(org.Genotype.Genes), org.Genotype.Extrons())
					}
				}
				d += "; before saving: " + strings.Join(s.BestInfo, " | ")
			}
			return d
		}
	}
	an, ag, ae, ad := e.AvgWinnerStatistics()
	if e.TrialsSolved() != s.SolvedN || !sameF(e.SuccessRate(), s.Rate) || e.Solved() != s.AnySolved || !sameF(an, s.AN) || !sameF(ag, s.AG) || !sameF(ae, s.AE) || !sameF(ad, s.AD) {
		return fmt.Sprintf("solved trials %d, success rate %v, winner statistics (%v, %v, %v, %v) read back as %d, %v, (%v, %v, %v, %v)", s.SolvedN, s.Rate, s.AN, s.AG, s.AE, s.AD, e.TrialsSolved(), e.SuccessRate(), an, ag, ae, ad)
	}
	return ""
}

func experimentObject(e *experiment.Experiment, desc string) *ioObject {
	snap := snapExperiment(e)
	h := uint64(len(e.Trials))
	for _, ts := range snap.Trials {
		h = Mix(h, uint64(len(ts.Gens)))
		for _, gs := range ts.Gens {
			if gs.ChGenome != nil {
				h = Mix(h, gs.ChGenome.Hash(), math.Float64bits(gs.ChFitness))
			}
		}
	}
	o := &ioObject{kind: ioExperiment, desc: "experiment " + desc, hash: h}
	o.write = func(w *SimWriter) error { return e.Write(w) }
	o.read = func(r *SimReader) (string, error) {
		got := &experiment.Experiment{}
		if err := got.Read(r); err != nil {
			return "", err
		}
		return snap.diff(got), nil
	}
	return o
}

// plantExtremes overwrites a few weights, mutation numbers and trait parameters with extreme but finite values.
func plantExtremes(t *Tape, g *genetics.Genome) int {
	n := 0
	sub := t.Sub("extreme.seed")
	for _, gn := range g.Genes {
		if sub.Intn(3) == 0 {
			gn.Link.ConnectionWeight = extremeFloats[sub.Intn(len(extremeFloats))]
			n++
		}
		if sub.Intn(4) == 0 {
			gn.MutationNum = extremeFloats[sub.Intn(len(extremeFloats))]
			n++
		}
	}
	for _, tr := range g.Traits {
		for k := range tr.Params {
			if sub.Intn(5) == 0 {
				tr.Params[k] = extremeFloats[sub.Intn(len(extremeFloats))]
				n++
			}
		}
	}
	return n
}

func (c *RunCtx) genomeProbes(r *GenomeRec) bool {
	interesting := false
	for _, g := range r.Genes {
		if !g.En {
			c.Count("probe.genome.disabled")
			interesting = true
			break
		}
	}
	for _, g := range r.Genes {
		if g.Rec {
			c.Count("probe.genome.recurrent")
			interesting = true
			break
		}
	}
	for _, g := range r.Genes {
		if g.TraitId == 0 {
			c.Count("probe.genome.nil_trait")
			interesting = true
			break
		}
	}
	for _, n := range r.Nodes {
		if n.Act != int(neatmath.SigmoidSteepenedActivation) && n.Neuron != 1 && n.Neuron != 3 {
			c.Count("probe.genome.nondefault_activation")
			interesting = true
			break
		}
	}
	return interesting
}

// runObject performs the drawn configuration(s) on one object.
func (c *RunCtx) runObject(o *ioObject, mode int, sweep bool, interesting bool) {
	t := c.T
	if o == nil {
		return
	}
	readDraw := func(data []byte) *SimReader { return NewSimReader(t, data) }
	probe := map[int]string{ioPlain: "probe.rt.plain", ioYAML: "probe.rt.yaml", ioOrganism: "probe.rt.organism", ioPopulation: "probe.rt.population", ioFast: "probe.rt.fastsolver", ioExperiment: "probe.rt.experiment"}
	c.Count(probe[o.kind])
	// always one clean round trip first: it also tells how long the written form is
	out := c.ioRoundTrip(o, 0, -1, readDraw)
	c.ioJudge(o, 0, -1, out)
	L := len(out.wrote)
	c.Op("%s: %s, %d bytes, clean round trip with reader mode %s", ioKindNames[o.kind], excerptBytes([]byte(o.desc), 160), L, out.readMode)
	h := Mix(uint64(o.kind), o.hash, HashString(out.readMode))
	c.State(h)
	if interesting {
		c.Nontrivial(h)
	}
	if mode == 0 || L == 0 {
		return
	}
	var points []int
	if sweep {
		c.Count("probe.sweep")
		if L <= 700 {
			for k := 0; k < L; k++ {
				points = append(points, k)
			}
		} else {
			for b := 4096; b < L+2; b += 4096 {
				for _, d := range []int{-2, -1, 0, 1} {
					if k := b + d; k >= 0 && k < L {
						points = append(points, k)
					}
				}
			}
			points = append(points, 0, 1, L-1, L-2, L/2)
			sub := t.Sub("sweep.seed")
			for i := 0; i < 40; i++ {
				points = append(points, sub.Intn(L))
			}
		}
	} else {
		switch t.Pick("failAt.kind", 3, 1, 1, 1) {
		case 0:
			points = []int{t.Draw("failAt", L)}
		case 1:
			points = []int{L - 1}
		case 2:
			points = []int{0}
		case 3:
			k := 4096 * (1 + t.Draw("failAt.buf", 1+L/4096))
			k += t.Draw("failAt.delta", 3) - 1
			if k >= L || k < 0 {
				k = L / 2
			}
			points = []int{k}
		}
	}
	for _, k := range points {
		fo := c.ioRoundTrip(o, mode, k, readDraw)
		c.ioJudge(o, mode, k, fo)
		hh := Mix(uint64(o.kind), o.hash, uint64(mode), uint64(k))
		c.State(hh)
		c.Nontrivial(hh)
	}
	c.Op("%s: %s fault at %d point(s) %v", ioKindNames[o.kind], []string{"", "write", "read", "transient write"}[mode], len(points), firstInts(points, 8))
}

func firstInts(x []int, n int) []int {
	if len(x) > n {
		return x[:n]
	}
	return x
}

func scenarioC15(c *RunCtx) {
	t := c.T
	maxPop, maxEpochs := 12, 8
	if c.Thorough {
		maxPop, maxEpochs = 30, 25
	}
	mode := t.Pick("disk.config", 3, 1, 1, 1) // clean / write fault (device stays failed) / read fault / transient write fault
	sweep := mode != 0 && t.Chance("sweep", 1, 4)
	if t.Chance("experiment?", 1, 4) {
		// ----- a simulated experiment -----
		maxTrials, maxGens := 3, 4
		if c.Thorough {
			maxTrials, maxGens = 4, 8
		}
		s := DrawExpSim(c, maxTrials, maxGens, maxPop, false)
		switch t.Pick("cut", 3, 1, 1) {
		case 1:
			s.Faults = []FaultSpec{{Kind: FaultEvalError, Trial: t.Draw("f.trial", s.Opts.NumRuns), Gen: t.Draw("f.gen", s.Opts.NumGenerations)}}
		case 2:
			s.Faults = []FaultSpec{{Kind: FaultCancelEvalExit, Trial: t.Draw("f.trial", s.Opts.NumRuns), Gen: t.Draw("f.gen", s.Opts.NumGenerations)}}
		}
		s.WinnerRecordWhenUnsolved = t.Chance("winnerRecordWhenUnsolved", 1, 2)
		c.Sample = "experiment: " + s.Describe()
		seedLib(int64(t.Draw("exec.libseed", 1<<31)))
		s.Run(c.LibSoft)
		c.SimNanos += int64(s.SimElapsed)
		if s.Err != nil {
			c.Count("probe.experiment.cut_short")
		}
		s.Exp.Id = t.Draw("exp.id", 1000)
		s.Exp.Name = []string{"sim", "", "XOR with spaces", "ünïcode-名前", "line\nbreak"}[t.Draw("exp.name", 5)]
		interesting := false
		for ti := range s.Exp.Trials {
			for gi := range s.Exp.Trials[ti].Generations {
				g := &s.Exp.Trials[ti].Generations[gi]
				if g.Champion == nil {
					c.Count("observe.record_without_champion")
					c.Skip("precondition:generation-record-without-champion")
				}
				if c.genomeProbes(Canon(g.Champion.Genotype)) {
					interesting = true
				}
			}
		}
		// "all experiment records", not only those Execute leaves: a share of the records is edited first (C19's surgery)
		desc := s.Describe()
		if len(s.Exp.Trials) > 0 && t.Chance("record.surgery", 1, 4) {
			c.Count("probe.record_surgery")
			desc += " record surgery:[" + RecordSurgery(t, s.Exp) + "]"
		}
		c.runObject(experimentObject(s.Exp, desc), mode, sweep, interesting || s.Err != nil)
		return
	}
	// ----- a simulated world -----
	spec := WorldSpec{
		Prof:         OptProfile{MinPop: 3, MaxPop: maxPop, Structural: t.Pick("structural", 1, 2), ActivationSwarm: true, ManySpecies: t.Chance("manySpecies", 1, 3)},
		Genome:       GenomeSpec{AllowDisabled: true, MaxHidden: 3, ActSwarm: true},
		AllowShipped: true,
		AllowRandom:  true,
	}
	var w *World
	c.LibSoft("construct", func() { w = NewWorld(t, spec) })
	if w.ConstructErr != nil {
		c.Skip("constructor-error")
	}
	if w.GenelessAtStart > 0 {
		c.Skip("precondition:geneless-random-genome")
	}
	epochs := t.Range("epochs", 0, maxEpochs)
	var elders []*genetics.Organism // organisms of the generation before the last turnover (a caller may keep champions)
	for e := 0; e < epochs; e++ {
		snap := StepEpoch(c, w, false, nil, c.LibSoft)
		if snap.Err != nil {
			c.Counters["abandoned.evolve-error"]++
			c.Skip("evolve-error")
		}
		elders = elders[:0]
		for _, os := range snap.Orgs {
			if len(os.Org.Genotype.Genes) > 0 {
				elders = append(elders, os.Org)
			}
		}
	}
	for _, o := range w.Pop.Organisms {
		if len(o.Genotype.Genes) == 0 {
			c.Skip("precondition:geneless-genome")
		}
	}
	c.Sample = w.Describe()
	c.Op("world: %s after %d epochs", w.Describe(), epochs)
	w.AssignFitness()
	if t.Chance("extremes", 1, 3) {
		n := 0
		for _, o := range w.Pop.Organisms {
			if t.Chance("extreme.org", 1, 2) {
				n += plantExtremes(t, o.Genotype)
			}
		}
		if n > 0 {
			c.CountN("probe.weight.extreme", n)
		}
		if t.Chance("extreme.fitness", 1, 2) {
			for _, o := range w.Pop.Organisms {
				o.Fitness = math.Abs(extremeFloats[t.Draw("extreme.fit", len(extremeFloats))])
			}
		}
	}
	nObj := t.Range("objects", 1, 4)
	for i := 0; i < nObj; i++ {
		org := w.Pop.Organisms[t.Draw("pick.org", len(w.Pop.Organisms))]
		g := org.Genotype
		rec := Canon(g)
		interesting := c.genomeProbes(rec)
		switch t.Pick("io.kind", 3, 3, 2, 2, 2, 2) {
		case 0:
			c.runObject(plainGenomeObject(g, t.Chance("viaStub", 1, 3)), mode, sweep, interesting)
		case 1:
			c.runObject(yamlGenomeObject(g), mode, sweep, interesting)
		case 2:
			// a modular genome (YAML is the only encoding with syntax for modules) and its fast solver
			mg := BuildModularGenome(t)
			if t.Chance("extreme.mod", 1, 3) {
				plantExtremes(t, mg)
			}
			c.Count("probe.rt.yaml_modular")
			c.runObject(yamlGenomeObject(mg), mode, sweep, true)
			if t.Chance("modular.fast", 1, 2) {
				nin := 0
				for _, n := range mg.Nodes {
					if n.NeuronType == network.InputNeuron {
						nin++
					}
				}
				if fo := fastSolverObject(c, mg, drawNetOps(t, t.Range("fast.ops", 2, 8), nin, "fast")); fo != nil {
					c.Count("probe.rt.fastsolver_modular")
					c.runObject(fo, mode, sweep, true)
				}
			}
		case 3:
			if len(elders) > 0 && t.Chance("elder", 1, 2) {
				// an organism that has been through a turnover: its fitness was shared and adjusted, the value it was
				// evaluated with is kept aside; the binary form must restore the fitness the organism holds now
				org = elders[t.Draw("pick.elder", len(elders))]
				c.Count("probe.organism_after_turnover")
			}
			var others []*genetics.Organism
			if t.Chance("heldForm", 1, 2) {
				for k := t.Range("heldForm.n", 1, 2); k > 0; k-- {
					if other := w.Pop.Organisms[t.Draw("heldForm.other", len(w.Pop.Organisms))]; len(other.Genotype.Genes) > 0 {
						others = append(others, other)
					}
				}
				c.Count("probe.organism_form_held")
			}
			c.runObject(organismObject(org, others...), mode, sweep, interesting)
		case 4:
			bySpecies := t.Chance("bySpecies", 1, 3)
			ids := map[int]bool{}
			for _, o := range w.Pop.Organisms {
				if ids[o.Genotype.Id] {
					bySpecies = false // genome ids are what the comparison matches by; their uniqueness is C02's business
				}
				ids[o.Genotype.Id] = true
			}
			if bySpecies {
				c.Count("probe.rt.population_by_species")
				for _, o := range w.Pop.Organisms {
					o.IsWinner = t.Chance("mark.winner", 1, 6) // the writer adds a comment line for winners
				}
			}
			c.runObject(populationObject(w, bySpecies), mode, sweep, interesting)
		case 5:
			nin := 0
			for _, n := range g.Nodes {
				if n.NeuronType == network.InputNeuron {
					nin++
				}
			}
			c.runObject(fastSolverObject(c, g, drawNetOps(t, t.Range("fast.ops", 2, 8), nin, "fast")), mode, sweep, interesting)
		}
	}
}
