package sim

import (
	"fmt"
	"math"
	"math/rand"

	"github.com/yaricom/goNEAT/v4/neat"
	"github.com/yaricom/goNEAT/v4/neat/genetics"
	"github.com/yaricom/goNEAT/v4/neat/network"
)

// CloneGenome is the harness's own deep copy (public constructors only; shares nothing with the source).
// The Phenotype link is not copied.
func CloneGenome(g *genetics.Genome, id int) *genetics.Genome {
	traits := make([]*neat.Trait, len(g.Traits))
	tmap := map[*neat.Trait]*neat.Trait{}
	for i, t := range g.Traits {
		traits[i] = neat.NewTraitCopy(t)
		tmap[t] = traits[i]
	}
	nodes := make([]*network.NNode, len(g.Nodes))
	nmap := map[*network.NNode]*network.NNode{}
	for i, n := range g.Nodes {
		nodes[i] = network.NewNNodeCopy(n, tmap[n.Trait])
		// every field is stated by the harness itself: a harness copy must not depend on a library copy routine
		nodes[i].Id, nodes[i].NeuronType, nodes[i].ActivationType, nodes[i].Trait = n.Id, n.NeuronType, n.ActivationType, tmap[n.Trait]
		nmap[n] = nodes[i]
	}
	genes := make([]*genetics.Gene, len(g.Genes))
	for i, gn := range g.Genes {
		l := network.NewLinkWithTrait(tmap[gn.Link.Trait], gn.Link.ConnectionWeight, nmap[gn.Link.InNode], nmap[gn.Link.OutNode], gn.Link.IsRecurrent)
		l.InNode, l.OutNode, l.IsRecurrent, l.Trait, l.ConnectionWeight = nmap[gn.Link.InNode], nmap[gn.Link.OutNode], gn.Link.IsRecurrent, tmap[gn.Link.Trait], gn.Link.ConnectionWeight
		genes[i] = genetics.NewConnectionGene(l, gn.InnovationNum, gn.MutationNum, gn.IsEnabled)
		genes[i].InnovationNum, genes[i].MutationNum, genes[i].IsEnabled = gn.InnovationNum, gn.MutationNum, gn.IsEnabled
	}
	if len(g.ControlGenes) == 0 {
		return genetics.NewGenome(id, traits, nodes, genes)
	}
	var mods []*genetics.MIMOControlGene
	for _, cg := range g.ControlGenes {
		cn := network.NewNNodeCopy(cg.ControlNode, tmap[cg.ControlNode.Trait])
		cn.Id, cn.NeuronType, cn.ActivationType, cn.Trait = cg.ControlNode.Id, cg.ControlNode.NeuronType, cg.ControlNode.ActivationType, tmap[cg.ControlNode.Trait]
		for _, l := range cg.ControlNode.Incoming {
			cn.Incoming = append(cn.Incoming, network.NewLinkCopy(l, nmap[l.InNode], cn))
		}
		for _, l := range cg.ControlNode.Outgoing {
			cn.Outgoing = append(cn.Outgoing, network.NewLinkCopy(l, cn, nmap[l.OutNode]))
		}
		mg := genetics.NewMIMOGeneCopy(cg, cn)
		mg.InnovationNum, mg.MutationNum, mg.IsEnabled = cg.InnovationNum, cg.MutationNum, cg.IsEnabled
		mods = append(mods, mg)
	}
	return genetics.NewModularGenome(id, traits, nodes, genes, mods)
}

// StubRegistry is the 40-line reference innovation registry / node id generator.
type StubRegistry struct {
	Inns     []genetics.Innovation
	NextInn  int64
	NextNode int
	Stored   int
	Issued   int
}

func (r *StubRegistry) StoreInnovation(i genetics.Innovation) {
	r.Inns = append(r.Inns, i)
	r.Stored++
}
func (r *StubRegistry) Innovations() []genetics.Innovation { return r.Inns }
func (r *StubRegistry) NextInnovationNumber() int64 {
	r.NextInn++
	r.Issued++
	return r.NextInn
}
func (r *StubRegistry) NextNodeId() int {
	r.NextNode++
	return r.NextNode
}

// NewStubRegistryFor starts the counters past everything the genomes hold.
func NewStubRegistryFor(gs ...*genetics.Genome) *StubRegistry {
	r := &StubRegistry{}
	for _, g := range gs {
		for _, gn := range g.Genes {
			if gn.InnovationNum > r.NextInn {
				r.NextInn = gn.InnovationNum
			}
		}
		for _, n := range g.Nodes {
			if n.Id > r.NextNode {
				r.NextNode = n.Id
			}
		}
	}
	return r
}

// Operator names.
const (
	OpDuplicate = iota
	OpAddNode
	OpAddLink
	OpConnectSensors
	OpLinkWeights
	OpLinkWeightsCold
	OpRandomTrait
	OpLinkTrait
	OpNodeTrait
	OpToggleEnable
	OpReEnable
	OpAllNonstructural
	OpMateMultipoint
	OpMateMultipointAvg
	OpMateSinglePoint
	NumOps
)

var OpNames = []string{"duplicate", "mutateAddNode", "mutateAddLink", "mutateConnectSensors", "mutateLinkWeights", "mutateLinkWeights(cold)",
	"mutateRandomTrait", "mutateLinkTrait", "mutateNodeTrait", "mutateToggleEnable", "mutateGeneReEnable", "mutateAllNonstructural",
	"mateMultipoint", "mateMultipointAvg", "mateSinglePoint"}

func IsMate(op int) bool     { return op >= OpMateMultipoint }
func IsMutation(op int) bool { return op >= OpAddNode && op <= OpAllNonstructural }

// OpResult is one operator application with its before/after records.
type OpResult struct {
	Op        int
	A, B      int // operand indexes in the pool (B only for mating)
	FitA      float64
	FitB      float64
	BeforeA   *GenomeRec
	BeforeB   *GenomeRec
	AfterA    *GenomeRec
	AfterB    *GenomeRec
	Child     *genetics.Genome // duplicate / mate result (nil for in-place mutators)
	ParentA   *genetics.Genome // the operand objects of a mating
	ParentB   *genetics.Genome
	Target    *genetics.Genome // the genome mutated in place (mutators)
	Ok        bool
	Err       error
	LibSeed   int64
	Registry  string
	InnBefore int
	Times     int
}

// OpsEnv applies tape-chosen operators to a pool of genomes.
type OpsEnv struct {
	C      *RunCtx
	T      *Tape
	Opts   *neat.Options
	Pool   []*genetics.Genome
	Fit    []float64
	Pop    *genetics.Population // real registry (may be nil)
	Stub   *StubRegistry
	UseReg int // 0 real population, 1 stub
	NextId int
	Gen    int
}

func (e *OpsEnv) registry() (genetics.InnovationsObserver, network.NodeIdGenerator, string) {
	if e.UseReg == 0 && e.Pop != nil {
		return e.Pop, e.Pop, "population"
	}
	return e.Stub, e.Stub, "stub"
}

// Apply runs operator op on pool[a] (and pool[b]); mutators work on the pool genome in place.
// lib guards the library call (Lib or LibSoft of the run context).
func (e *OpsEnv) Apply(op, a, b int, lib func(string, func())) *OpResult {
	res := &OpResult{Op: op, A: a, B: b, FitA: e.Fit[a]}
	ga := e.Pool[a]
	res.BeforeA = Canon(ga)
	reg, ids, regName := e.registry()
	res.Registry = regName
	res.InnBefore = len(reg.Innovations())
	res.LibSeed = int64(e.T.Draw("op.libseed", 1<<31))
	rand.Seed(res.LibSeed)
	e.NextId++
	switch {
	case op == OpDuplicate:
		lib(OpNames[op], func() { res.Child, res.Err = genetics.VerifDuplicate(ga, e.NextId) })
		res.Ok = res.Err == nil
	case IsMate(op):
		gb := e.Pool[b]
		res.FitB = e.Fit[b]
		res.ParentA, res.ParentB = ga, gb
		// two different parents may carry the same genome id (ids are per-species offspring counters; an interspecies
		// mate can easily share the id of the organism it is mated with)
		if a != b && e.T.Chance("mate.same_genome_id", 1, 5) {
			oldId := gb.Id
			gb.Id = ga.Id
			defer func() { gb.Id = oldId }()
			e.C.Count("probe.parents_same_genome_id")
		}
		res.BeforeB = Canon(gb)
		lib(OpNames[op], func() {
			switch op {
			case OpMateMultipoint:
				res.Child, res.Err = genetics.VerifMateMultipoint(ga, gb, e.NextId, res.FitA, res.FitB)
			case OpMateMultipointAvg:
				res.Child, res.Err = genetics.VerifMateMultipointAvg(ga, gb, e.NextId, res.FitA, res.FitB)
			case OpMateSinglePoint:
				res.Child, res.Err = genetics.VerifMateSinglePoint(ga, gb, e.NextId)
			}
		})
		res.Ok = res.Err == nil
		res.AfterB = Canon(gb)
	default:
		res.Target = ga
		res.Times = 1 + e.T.Draw("op.times", 3)
		// the operand may have been expressed before (a caller that evaluated the genome): Genesis leaves the network
		// and the phenotype analogues on the genome; a mutator must not take a stale network for the genome's structure
		if e.T.Chance("op.expressedBefore", 1, 5) {
			lib("Genesis before "+OpNames[op], func() { _, _ = ga.Genesis(ga.Id) })
			e.C.Count("probe.op.operand_expressed_before")
		}
		lib(OpNames[op], func() {
			switch op {
			case OpAddNode:
				res.Ok, res.Err = genetics.VerifMutateAddNode(ga, reg, ids, e.Opts)
			case OpAddLink:
				res.Ok, res.Err = genetics.VerifMutateAddLink(ga, reg, e.Gen, e.Opts)
			case OpConnectSensors:
				res.Ok, res.Err = genetics.VerifMutateConnectSensors(ga, reg, e.Opts)
			case OpLinkWeights:
				res.Ok, res.Err = genetics.VerifMutateLinkWeights(ga, e.Opts.WeightMutPower, 1.0, false)
			case OpLinkWeightsCold:
				res.Ok, res.Err = genetics.VerifMutateLinkWeights(ga, e.Opts.WeightMutPower, 1.0, true)
			case OpRandomTrait:
				res.Ok, res.Err = genetics.VerifMutateRandomTrait(ga, e.Opts)
			case OpLinkTrait:
				res.Ok, res.Err = genetics.VerifMutateLinkTrait(ga, res.Times)
			case OpNodeTrait:
				res.Ok, res.Err = genetics.VerifMutateNodeTrait(ga, res.Times)
			case OpToggleEnable:
				res.Ok, res.Err = genetics.VerifMutateToggleEnable(ga, res.Times)
			case OpReEnable:
				res.Ok, res.Err = genetics.VerifMutateGeneReEnable(ga)
			case OpAllNonstructural:
				res.Ok, res.Err = genetics.VerifMutateAllNonstructural(ga, e.Opts)
			}
		})
	}
	res.AfterA = Canon(ga)
	return res
}

// PlantLink is a harness-made add-link on pool[a] (a reference implementation of what add-link documents: one new
// enabled gene between two existing nodes, not ending in a sensor, duplicating no link of the genome, under a fresh
// innovation number - what the library issues once a generation boundary has dropped the records). Unlike the library
// it picks the node pair adversarially: a pair that some genome of the pool already links, so that parallel
// forward/recurrent links and the same link under two numbers turn up in crossover operands often.
// It returns a description, or "" when no such pair exists.
func (e *OpsEnv) PlantLink(a int) string {
	g := e.Pool[a]
	if len(g.ControlGenes) > 0 || len(g.Traits) == 0 {
		return ""
	}
	byId := map[int]*network.NNode{}
	for _, n := range g.Nodes {
		byId[n.Id] = n
	}
	has := func(in, out int, rec bool) bool {
		for _, gn := range g.Genes {
			if gn.Link.InNode.Id == in && gn.Link.OutNode.Id == out && gn.Link.IsRecurrent == rec {
				return true
			}
		}
		return false
	}
	type cand struct {
		in, out int
		rec     bool
	}
	var cands []cand
	for _, og := range e.Pool {
		for _, gn := range og.Genes {
			in, out := byId[gn.Link.InNode.Id], byId[gn.Link.OutNode.Id]
			if in == nil || out == nil || out.IsSensor() {
				continue
			}
			for _, rec := range []bool{false, true} {
				if rec && in.IsSensor() {
					continue
				}
				if !has(in.Id, out.Id, rec) {
					cands = append(cands, cand{in.Id, out.Id, rec})
				}
			}
		}
	}
	if len(cands) == 0 {
		return ""
	}
	k := cands[e.T.Draw("plant.pair", len(cands))]
	reg, _, _ := e.registry()
	innov := reg.NextInnovationNumber()
	if n := len(g.Genes); n > 0 && g.Genes[n-1].InnovationNum >= innov {
		e.C.Crash = fmt.Sprintf("harness: planted link would get innovation %d, the genome already holds %d", innov, g.Genes[n-1].InnovationNum)
		panic(stopRun{})
	}
	w := math.Round((e.T.Float("plant.w")*4-2)*1000) / 1000
	tr := g.Traits[0]
	gene := genetics.NewGeneWithTrait(tr, w, byId[k.in], byId[k.out], k.rec, innov, w)
	gene.Link.InNode, gene.Link.OutNode, gene.Link.IsRecurrent, gene.Link.Trait, gene.Link.ConnectionWeight = byId[k.in], byId[k.out], k.rec, tr, w
	gene.InnovationNum, gene.MutationNum, gene.IsEnabled = innov, w, true
	g.Genes = append(g.Genes, gene)
	g.Phenotype = nil
	e.C.Count("probe.op.planted_link")
	return fmt.Sprintf("harness add-link(pool[%d]): #%d %d->%d recurrent=%t", a, innov, k.in, k.out, k.rec)
}

// Describe renders the application for the operation trace.
func (r *OpResult) Describe() string {
	s := fmt.Sprintf("%s(pool[%d]", OpNames[r.Op], r.A)
	if IsMate(r.Op) {
		s += fmt.Sprintf(", pool[%d]; fitness %.4g vs %.4g", r.B, r.FitA, r.FitB)
	}
	s += fmt.Sprintf(") libseed=%d registry=%s -> ok=%t err=%v", r.LibSeed, r.Registry, r.Ok, r.Err)
	return s
}

// DrawOp picks an operator (weights favour the structural ones and the crossovers) and operands.
func (e *OpsEnv) DrawOp(allowed []int) (op, a, b int) {
	op = allowed[e.T.Draw("op", len(allowed))]
	a = e.T.Draw("op.a", len(e.Pool))
	if IsMate(op) {
		b = e.T.Draw("op.b", len(e.Pool))
	}
	return
}

// Adopt puts a genome (a child, or a clone) into the pool, replacing a tape-chosen slot when the pool is full.
func (e *OpsEnv) Adopt(g *genetics.Genome, fit float64, maxPool int) int {
	if len(e.Pool) < maxPool {
		e.Pool = append(e.Pool, g)
		e.Fit = append(e.Fit, fit)
		return len(e.Pool) - 1
	}
	i := e.T.Draw("adopt.slot", len(e.Pool))
	e.Pool[i], e.Fit[i] = g, fit
	return i
}

// DrawFitness draws a fitness value with frequent ties.
func (e *OpsEnv) DrawFitness() float64 {
	switch e.T.Pick("fit.kind", 3, 3, 1, 2) {
	case 0:
		return float64(e.T.Draw("fit.tie", 3))
	case 1:
		return e.T.Float("fit") * 10
	case 3:
		// distinct values that differ from the tenth digit on: a comparison with a tolerance takes them for a tie
		return 3.25 + float64(e.T.Draw("fit.near", 4))*1e-10
	}
	return 1e300 * e.T.Float("fit.huge")
}

// NewOpsEnvFromWorld evolves the world for a few epochs (so that genomes have diverged innovation lists, disabled and
// recurrent genes) and takes harness-made deep copies of tape-chosen organisms as the operand pool.
func NewOpsEnvFromWorld(c *RunCtx, w *World, epochs, poolSize int) *OpsEnv {
	for e := 0; e < epochs; e++ {
		snap := StepEpoch(c, w, false, nil, c.LibSoft)
		if snap.Err != nil {
			c.Counters["abandoned.evolve-error"]++
			break
		}
		for _, o := range w.Pop.Organisms {
			if len(o.Genotype.Genes) == 0 {
				c.Skip("precondition:geneless-genome-in-pool-world")
			}
		}
	}
	env := &OpsEnv{C: c, T: c.T, Opts: w.Opts, Pop: w.Pop, Gen: w.Gen, NextId: 1000}
	n := len(w.Pop.Organisms)
	for i := 0; i < poolSize; i++ {
		src := w.Pop.Organisms[c.T.Draw("pool.pick", n)].Genotype
		env.Pool = append(env.Pool, CloneGenome(src, 1000+i))
		env.Fit = append(env.Fit, env.DrawFitness())
	}
	var all []*genetics.Genome
	for _, o := range w.Pop.Organisms {
		all = append(all, o.Genotype)
	}
	env.Stub = NewStubRegistryFor(all...)
	env.UseReg = c.T.Draw("registry", 2)
	return env
}
