package sim

import (
	"errors"
	"fmt"
	"io"
)

// The simulated disk: readers and writers handed to the library's I/O functions. Readers exercise every legal
// io.Reader behaviour (short reads, 1-byte reads, data together with EOF); writers can fail at a chosen byte.

var ErrSimDisk = errors.New("simulated disk: write failed (device full / I/O error)")

// SimReader serves data with tape-chosen fragmentation.
type SimReader struct {
	data  []byte
	pos   int
	mode  int // 0 whole, 1 one byte at a time, 2 random short reads, 3 chunked with (n, EOF) on the last chunk
	rng   *SubRNG
	chunk int
	Reads int
	Short int
	EOFs  int
	// FailAt >= 0: the device fails once FailAt bytes have been served (a read error in mid-stream, not EOF)
	FailAt int
	Failed bool
}

// ErrSimDiskRead is the read error injected by the simulated disk.
var ErrSimDiskRead = errors.New("simulated disk: read failed (I/O error)")

const (
	ReadWhole = iota
	ReadByte
	ReadShort
	ReadChunkEOF
	numReadModes
)

var readModeNames = []string{"whole", "one-byte", "random-short", "chunk+EOF-with-data"}

func NewSimReader(t *Tape, data []byte) *SimReader {
	r := &SimReader{data: data, mode: t.Draw("disk.readmode", numReadModes), FailAt: -1}
	if r.mode == ReadShort || r.mode == ReadChunkEOF {
		r.rng = t.Sub("disk.readseed")
		r.chunk = 1 + t.Draw("disk.chunk", 64)
	}
	return r
}

func (r *SimReader) ModeName() string { return readModeNames[r.mode] }

func (r *SimReader) Read(p []byte) (int, error) {
	r.Reads++
	if len(p) == 0 {
		return 0, nil
	}
	if r.FailAt >= 0 && r.pos >= r.FailAt {
		r.Failed = true
		return 0, ErrSimDiskRead
	}
	if r.pos >= len(r.data) {
		r.EOFs++
		return 0, io.EOF
	}
	n := len(p)
	if r.FailAt >= 0 && n > r.FailAt-r.pos {
		n = r.FailAt - r.pos // serve what precedes the bad sector, fail on the next call
		p = p[:n]
	}
	switch r.mode {
	case ReadByte:
		n = 1
	case ReadShort:
		n = 1 + r.rng.Intn(len(p))
		if n > 1+r.chunk*4 {
			n = 1 + r.rng.Intn(r.chunk*4)
		}
	case ReadChunkEOF:
		if n > r.chunk {
			n = r.chunk
		}
	}
	if n > len(r.data)-r.pos {
		n = len(r.data) - r.pos
	}
	if n < len(p) && r.pos+n < len(r.data) {
		r.Short++
	}
	copy(p, r.data[r.pos:r.pos+n])
	r.pos += n
	if r.mode == ReadChunkEOF && r.pos >= len(r.data) {
		r.EOFs++
		return n, io.EOF // legal: the final bytes together with EOF
	}
	return n, nil
}

// SimWriter keeps what was written; it fails from byte FailAt on (FailAt < 0: never).
type SimWriter struct {
	Buf    []byte
	FailAt int
	Failed bool
	Writes int
	// Transient: only the write call that reaches byte FailAt fails (a prefix of it reaches the disk, the rest is
	// lost); the device accepts later calls again. Otherwise the device stays failed.
	Transient bool
}

func NewSimWriter(failAt int) *SimWriter { return &SimWriter{FailAt: failAt} }

func (w *SimWriter) Write(p []byte) (int, error) {
	w.Writes++
	if w.Failed && !w.Transient {
		return 0, ErrSimDisk
	}
	if w.Failed && w.Transient {
		w.Buf = append(w.Buf, p...)
		return len(p), nil
	}
	if w.FailAt >= 0 && len(w.Buf)+len(p) > w.FailAt {
		n := w.FailAt - len(w.Buf)
		if n < 0 {
			n = 0
		}
		w.Buf = append(w.Buf, p[:n]...) // torn write: a prefix reaches the disk
		w.Failed = true
		return n, fmt.Errorf("%w at byte %d", ErrSimDisk, w.FailAt)
	}
	w.Buf = append(w.Buf, p...)
	return len(p), nil
}
