package sim

import (
	"fmt"

	"github.com/yaricom/goNEAT/v4/neat/genetics"
)

// C01 — every genetic operator and epoch yields only well-formed genomes.

func init() {
	Register(&Scenario{
		Prop: "C01", Run: scenarioC01, QuickRuns: 7200, ThoroughRuns: 180000, Level: "exploration",
		Rule:       "one run = one seeded world (built / shipped / random start genomes, option swarm) whose population is checked genome by genome after construction and after every epoch, interleaved with direct operator histories (duplicate, 10 mutators, 3 crossovers against the real population or the reference registry) whose results re-enter the operand pool; a case is one checked genome, distinct by its shape hash (genes, nodes, disabled, recurrent, max innovation); non-trivial when it has a hidden node, a disabled or a recurrent gene",
		RealParts:  []string{"all of neat/genetics incl. both epoch executors and every operator (through the verif export file)", "Genome.Genesis / network construction", "math/rand seeded from the tape"},
		StubParts:  []string{"fitness assignment", "innovation registry in about half of the operator histories (reference registry), the real Population in the rest", "goroutine choice for parallel-executor worlds"},
		Assumes:    []string{"start genomes are well-formed, non-modular, with at least one gene and consecutive trait ids", "NewPopulationRandom worlds whose constructor already emits a gene-less genome are skipped (precondition)"},
		ProbeNames: []string{"probe.op.mutateAddNode.ok", "probe.op.mutateAddLink.ok", "probe.op.mutateConnectSensors.ok", "probe.op.mateSinglePoint", "probe.op.mateMultipoint", "probe.op.mateMultipointAvg", "probe.interspecies_parents", "probe.genome.recurrent", "probe.genome.disabled", "probe.random_world", "probe.parallel_epoch", "probe.checkpoint_restore", "probe.op.planted_link"},
	})
}

func sharedInnovations(a, b *GenomeRec) int {
	in := map[int64]bool{}
	for _, g := range a.Genes {
		in[g.Innov] = true
	}
	n := 0
	for _, g := range b.Genes {
		if in[g.Innov] {
			n++
		}
	}
	return n
}

func recordGenomeState(c *RunCtx, r *GenomeRec) {
	h := r.ShapeHash()
	c.State(h)
	hid, dis, rec := false, false, false
	for _, n := range r.Nodes {
		if n.Neuron == 0 {
			hid = true
		}
	}
	for _, g := range r.Genes {
		if !g.En {
			dis = true
		}
		if g.Rec {
			rec = true
		}
	}
	if dis {
		c.Count("probe.genome.disabled")
	}
	if rec {
		c.Count("probe.genome.recurrent")
	}
	if hid || dis || rec {
		c.Nontrivial(h)
	}
}

// checkOpWellFormed checks what an operator produced (C01 applied to one operator result).
func checkOpWellFormed(c *RunCtx, w *World, res *OpResult) {
	var g *genetics.Genome
	switch {
	case res.Child != nil:
		g = res.Child
	case res.Target != nil:
		g = res.Target
	default:
		return
	}
	if res.Err != nil && res.Child == nil && res.Target == nil {
		return
	}
	if IsMate(res.Op) && len(g.Genes) == 0 {
		// known finding F9: mateSinglePoint gives up with an empty child when the walk over the two gene lists has to
		// skip before it has chosen anything, i.e. when the parents do not start with the same gene. Genomes with a
		// common ancestor always share their first gene, so this is reachable only with unrelated (random) genomes.
		firstA, firstB := res.BeforeA.Genes[0].Innov, res.BeforeB.Genes[0].Innov
		shared := sharedInnovations(res.BeforeA, res.BeforeB)
		if res.Op == OpMateSinglePoint && firstA != firstB {
			c.FailSoft("geneless-crossover-child", "mateSinglePoint of unrelated parents whose first genes differ (#%d vs #%d, %d shared innovation numbers) produced a child without genes (parents: %s / %s)", firstA, firstB, shared, res.BeforeA.Pretty(), res.BeforeB.Pretty())
			return
		}
		c.Fail("geneless-crossover-child", "%s of parents starting with the same gene #%d (%d shared innovation numbers) produced a child without genes (parents: %s / %s)", OpNames[res.Op], firstA, shared, res.BeforeA.Pretty(), res.BeforeB.Pretty())
	}
	if bad := WellFormed(g, w.Ancestors, true); len(bad) > 0 {
		parents := res.BeforeA.Pretty()
		if res.BeforeB != nil {
			parents += " / " + res.BeforeB.Pretty()
		}
		c.Fail("ill-formed:"+clauseName(bad[0]), "%s (ok=%t, err=%v, libseed %d) produced an ill-formed genome: %s\nresult: %s\noperands: %s", OpNames[res.Op], res.Ok, res.Err, res.LibSeed, bad[0], Canon(g).Pretty(), parents)
	}
}

func scenarioC01(c *RunCtx) {
	t := c.T
	maxPop, maxEpochs, maxOps := 24, 10, 60
	if c.Thorough {
		maxPop, maxEpochs, maxOps = 60, 40, 300
	}
	spec := WorldSpec{
		Prof:         OptProfile{MinPop: 3, MaxPop: maxPop, AllowStolen: true, SmallDropOff: t.Chance("smallDropOff", 1, 3), Parallel: 2, ManySpecies: t.Chance("manySpecies", 1, 2), Structural: t.Pick("structural", 1, 2), ActivationSwarm: true},
		Genome:       GenomeSpec{AllowDisabled: true, MaxHidden: 3, ActSwarm: true},
		AllowRandom:  true,
		AllowShipped: true,
		AllowRead:    true,
	}
	var w *World
	c.Lib("construct", func() { w = NewWorld(t, spec) })
	if w.ConstructErr != nil {
		c.Fail("constructor-error", "world [start=%s]: population constructor failed: %v", w.KindName, w.ConstructErr)
	}
	if w.GenelessAtStart > 0 {
		c.Skip("precondition:geneless-random-genome")
	}
	if w.Kind == StartRandomPop {
		c.Count("probe.random_world")
	}
	var sched *Sched
	if w.IsParallel() {
		sched = NewSched(t)
		genetics.Verif = sched.Hooks()
		defer func() { genetics.Verif = nil }()
	}
	c.Sample = w.Describe()
	c.Op("world: %s", w.Describe())
	checkPop := func(where string) {
		for i, o := range w.Pop.Organisms {
			g := o.Genotype
			if len(g.Genes) == 0 && w.Kind == StartRandomPop {
				c.Fail("geneless-genome", "world [start=%s] %s: organism %d has no genes (single-point crossover of unrelated parents whose first genes differ)", w.KindName, where, i)
			}
			if bad := WellFormed(g, w.Ancestors, true); len(bad) > 0 {
				c.Fail("ill-formed:"+clauseName(bad[0]), "world [start=%s] %s: organism %d is ill-formed: %s\n%s", w.KindName, where, i, bad[0], Canon(g).Pretty())
			}
			recordGenomeState(c, Canon(g))
		}
	}
	checkPop("after construction")
	phases := t.Range("phases", 1, 4)
	epochsLeft := t.Range("epochs", 1, maxEpochs)
	opsLeft := t.Range("ops", 0, maxOps)
	for ph := 0; ph < phases; ph++ {
		// evolve
		n := (epochsLeft + phases - 1 - ph) / (phases - ph)
		epochsLeft -= n
		for e := 0; e < n; e++ {
			gen := w.Gen
			snap := StepEpoch(c, w, false, nil, c.LibSoft)
			c.Steps++
			c.Op("epoch %d err=%v", gen, snap.Err)
			if snap.Err != nil {
				// an epoch error is C02's business unless it stems from an ill-formed genome, which checkPop reports
				c.Counters["abandoned.epoch-error"]++
				c.Abandon = "epoch-error"
				return
			}
			if w.IsParallel() {
				c.Count("probe.parallel_epoch")
			}
			checkPop(fmt.Sprintf("after epoch %d", gen))
			if t.Chance("checkpoint", 1, 8) {
				var cerr error
				c.LibSoft("checkpoint", func() { cerr = w.Checkpoint() })
				if cerr != nil {
					c.Skip("checkpoint-error")
				}
				c.Count("probe.checkpoint_restore")
				c.Op("checkpoint: population written and read back after epoch %d", gen)
				checkPop(fmt.Sprintf("after the restore that follows epoch %d", gen))
			}
		}
		// operator history on copies of the current population
		k := (opsLeft + phases - 1 - ph) / (phases - ph)
		opsLeft -= k
		if k == 0 {
			continue
		}
		env := &OpsEnv{C: c, T: t, Opts: w.Opts, Pop: w.Pop, Gen: w.Gen, NextId: 5000}
		var all []*genetics.Genome
		for _, o := range w.Pop.Organisms {
			all = append(all, o.Genotype)
		}
		env.Stub = NewStubRegistryFor(all...)
		env.UseReg = t.Draw("registry", 2)
		poolSize := t.Range("pool", 2, 6)
		for i := 0; i < poolSize; i++ {
			oi := t.Draw("pool.pick", len(w.Pop.Organisms))
			env.Pool = append(env.Pool, CloneGenome(w.Pop.Organisms[oi].Genotype, 5000+i))
			env.Fit = append(env.Fit, env.DrawFitness())
			if i > 0 && w.Pop.Organisms[oi].Species != w.Pop.Organisms[0].Species {
				c.Count("probe.interspecies_parents")
			}
		}
		allOps := make([]int, NumOps)
		for i := range allOps {
			allOps[i] = i
		}
		for i := 0; i < k; i++ {
			if t.Chance("plant", 1, 6) {
				pa := t.Draw("plant.a", len(env.Pool))
				if d := env.PlantLink(pa); d != "" {
					c.Op("%s", d)
					if bad := WellFormed(env.Pool[pa], w.Ancestors, false); len(bad) > 0 {
						c.Crash = "harness: the planted link made the operand ill-formed: " + bad[0]
						panic(stopRun{})
					}
				}
				continue
			}
			op, a, b := env.DrawOp(allOps)
			res := env.Apply(op, a, b, c.Lib)
			c.Steps++
			c.Op("%s", res.Describe())
			name := "probe.op." + OpNames[op]
			c.Count(name)
			if res.Ok {
				c.Count(name + ".ok")
			}
			checkOpWellFormed(c, w, res)
			// operands must stay well-formed too (mutators work in place; crossover must not damage parents)
			if bad := WellFormed(env.Pool[a], w.Ancestors, false); len(bad) > 0 && res.Target == nil {
				c.Fail("ill-formed:"+clauseName(bad[0]), "%s left its operand ill-formed: %s", OpNames[op], bad[0])
			}
			if res.Child != nil && res.Err == nil && len(res.Child.Genes) > 0 {
				recordGenomeState(c, Canon(res.Child))
				env.Adopt(res.Child, env.DrawFitness(), 8)
			} else if res.Target != nil {
				recordGenomeState(c, res.AfterA)
			}
		}
	}
}
