package sim

import (
	"errors"
	"fmt"
	"math"

	"github.com/yaricom/goNEAT/v4/neat"
	"github.com/yaricom/goNEAT/v4/neat/genetics"
	neatmath "github.com/yaricom/goNEAT/v4/neat/math"
	"github.com/yaricom/goNEAT/v4/neat/network"
)

// C11 — a phenotype network expresses exactly the enabled part of its genome.
// C12 — all solvers compute the feed-forward function of the network.
// C13 — flushing makes a network indistinguishable from a freshly built one.
// C14 — activation depth is the longest path to an output and always terminates.

func init() {
	Register(&Scenario{
		Prop: "C11", Run: scenarioC11, QuickRuns: 12000, ThoroughRuns: 1500000, Level: "exploration",
		Rule:       "one run = a seeded evolving world (both executors); (a) history-dependent half: after construction and after every epoch Organism.Phenotype() of every organism is compared with the reference expression of that organism's *current* genome (a phenotype cached before the last mutation shows here), after a caller's own mutation followed by UpdatePhenotype(), after an expressed organism object received another organism's binary form through UnmarshalBinary(), and for a new organism made from a genome that was expressed and then changed; (b) genomes taken from the run, the shipped modular genome and generated modular genomes (modules sharing inputs, taking hidden nodes as inputs, feeding their output back as an input) are expressed and compared node by node, link by link (pointer-consistent incoming/outgoing lists), control node by control node, and through the whole gonum graph view over all ordered pairs of present ids plus absent ones. A case is one compared network; non-trivial when the genome has a disabled gene, a recurrent gene or a module; distinct by genome shape hash",
		RealParts:  []string{"Genome.Genesis, Organism.Phenotype / phenotype caching, Network graph adapters (Node, Nodes, From, To, Edge, WeightedEdge, Weight, HasEdgeFromTo, HasEdgeBetween), NodeCount / LinkCount / Complexity", "the epochs and mutators that create and modify the organisms"},
		StubParts:  []string{"fitness assignment", "goroutine choice in parallel worlds"},
		Assumes:    []string{"where several enabled genes join the same ordered node pair (recurrent and non-recurrent variant) the graph view may report either link's weight"},
		ProbeNames: []string{"probe.organism_phenotype_checked", "probe.reexpressed_after_mutation", "probe.organism_had_cached_phenotype", "probe.baby_of_structural_mutation", "probe.genome.disabled_gene", "probe.genome.recurrent_gene", "probe.genome.self_loop", "probe.genome.modular", "probe.genome.disabled_module", "probe.multi_edge_pair"},
	})
	Register(&Scenario{
		Prop: "C12", Run: scenarioC12, QuickRuns: 30000, ThoroughRuns: 3000000, Level: "exploration",
		Rule:       "one run = feed-forward genomes from a seeded evolving world without recurrent links (landscape rewarding structure, activation-type swarm, 0-2 bias nodes) and from the genome builder; every phenotype that is acyclic with all neurons reachable from a sensor is driven with seeded input vectors through the standard solver (ForwardSteps, RecursiveSteps) and the fast solver (ForwardSteps, RecursiveSteps, Relax) for L..L+3 steps (L = longest sensor-to-output path) and compared with the topological-order reference evaluation. State generator only: the statement has no schedule or fault axis (DESIGN.md section 0). A case is one (network, input vector); non-trivial when the network has a hidden node or a bias link of non-zero weight; distinct by (genome shape hash, input seed)",
		RealParts:  []string{"Network.LoadSensors / ActivateSteps / ForwardSteps / RecursiveSteps, Network.FastNetworkSolver translation, FastModularNetworkSolver ForwardSteps / RecursiveSteps / Relax", "scalar activation functions as trusted primitives of the reference"},
		StubParts:  []string{"fitness assignment"},
		Assumes:    []string{"tolerance 1e-9 for summation order; input vectors that put a step / sign neuron within 1e-9 of its discontinuity are skipped and counted", "networks with a neuron that no sensor reaches, or with a cycle, are outside the property and skipped (counted)"},
		ProbeNames: []string{"probe.net.hidden", "probe.net.bias_link_matters", "probe.net.depth>=3", "probe.net.skip_connection", "probe.net.multi_output", "probe.net.nonsigmoid_activation", "probe.reused_after_flush", "probe.reused_without_flush", "probe.net.hand_built_permuted", "probe.net.deep_chain", "probe.net.parallel_links", "skipped.cyclic", "skipped.unreachable_neuron"},
	})
	Register(&Scenario{
		Prop: "C13", Run: scenarioC13, QuickRuns: 30000, ThoroughRuns: 4000000, Level: "exploration",
		Rule:       "one run = networks (feed-forward, recurrent, self-loops) expressed from genomes of a seeded evolving world; each is a stateful node: a tape-drawn activation history (sensor loads - also with one value per sensor, bias values supplied by the caller, or more values than sensors -, Activate, ActivateSteps with too few steps so that the wave is cut by an error, ForwardSteps, RecursiveSteps, Relax, depth queries incl. capped ones) is followed by Flush - a restart that keeps only durable state (topology, weights) - and then a tape-drawn sequence whose every result, error and output vector must be bit-identical to the same sequence on a fresh instance. Standard network and fast solver. A case is one (network, history, sequence); non-trivial when the network has a recurrent link or a cycle; distinct by (genome shape hash, history hash)",
		RealParts:  []string{"Network.Flush / NNode.Flushback, FastModularNetworkSolver.Flush and all activation entry points of both solvers"},
		StubParts:  []string{"fitness assignment"},
		FaultKinds: []string{"fault.activation_cut_short", "fault.capped_depth_query"},
		Assumes:    []string{"non-modular networks"},
		ProbeNames: []string{"probe.net.recurrent_link", "probe.net.self_loop", "probe.net.cyclic", "probe.history.nonempty", "probe.fast_solver", "probe.standard_network", "probe.modular_network"},
	})
	Register(&Scenario{
		Prop: "C14", Run: scenarioC14, QuickRuns: 30000, ThoroughRuns: 4000000, Level: "exploration", CrashIsViolation: true,
		Rule:       "one run = networks with hidden nodes expressed from genomes of a seeded evolving world (acyclic ones from recurrence-free worlds, cyclic ones otherwise) and from the genome builder; acyclic: MaxActivationDepth must equal the dynamic-programming longest path ending in an output; cyclic: the query terminates with 0 <= depth <= node count; caps: equal to the uncapped answer when that does not exceed the cap, else (cap, depth-exceeded error); query histories (capped -> uncapped -> capped ..., interleaved with activations): every answer must equal the answer of a fresh network, so an aborted (capped) query must leave no traversal marks. A worker crash by stack overflow or a hang inside a run is reported as non-termination. A case is one (network, query history); non-trivial when the history contains a capped query that hit the cap; distinct by (genome shape hash, history hash)",
		RealParts:  []string{"Network.MaxActivationDepth / MaxActivationDepthWithCap, NNode.Depth"},
		StubParts:  []string{"fitness assignment"},
		FaultKinds: []string{"fault.capped_depth_query_hit"},
		Assumes:    []string{"<= 14 nodes per network keeps the library's own exponential search cheap", "non-modular networks with at least one hidden node"},
		ProbeNames: []string{"probe.dag", "probe.cyclic", "probe.depth>=3", "probe.cap_hit_then_query", "probe.shared_subpath", "probe.disabled_module_genome", "probe.print_paths_then_query", "probe.direct_node_depth_query", "probe.isrecurrent_then_query"},
	})
}

func genomeFlags(c *RunCtx, r *GenomeRec) (interesting bool) {
	multi := map[[2]int]int{}
	for _, g := range r.Genes {
		if !g.En {
			c.Count("probe.genome.disabled_gene")
			interesting = true
		}
		if g.Rec {
			c.Count("probe.genome.recurrent_gene")
			interesting = true
		}
		if g.In == g.Out {
			c.Count("probe.genome.self_loop")
		}
		if g.En {
			multi[[2]int{g.In, g.Out}]++
		}
	}
	for _, g := range r.Genes {
		if multi[[2]int{g.In, g.Out}] > 1 {
			c.Count("probe.multi_edge_pair")
			break
		}
	}
	if len(r.Mods) > 0 {
		c.Count("probe.genome.modular")
		interesting = true
		for _, m := range r.Mods {
			if !m.En {
				c.Count("probe.genome.disabled_module")
			}
		}
	}
	return
}

func scenarioC11(c *RunCtx) {
	t := c.T
	maxPop, maxEpochs := 16, 8
	if c.Thorough {
		maxPop, maxEpochs = 40, 30
	}
	spec := WorldSpec{
		Prof:         OptProfile{MinPop: 3, MaxPop: maxPop, Parallel: 2, Structural: 1, AllowStolen: true, ActivationSwarm: true, ManySpecies: t.Chance("manySpecies", 1, 3)},
		Genome:       GenomeSpec{AllowDisabled: true, MaxHidden: 3, ActSwarm: true},
		AllowShipped: true,
		AllowRead:    true,
	}
	var w *World
	c.LibSoft("construct", func() { w = NewWorld(t, spec) })
	if w.ConstructErr != nil {
		c.Skip("constructor-error")
	}
	if w.Opts.MutateToggleEnableProb < 0.15 {
		w.Opts.MutateToggleEnableProb = 0.3
	}
	if w.IsParallel() {
		sched := NewSched(t)
		genetics.Verif = sched.Hooks()
		defer func() { genetics.Verif = nil }()
	}
	c.Sample = w.Describe()
	c.Op("world: %s", w.Describe())
	checkOrganisms := func(where string) {
		for i, o := range w.Pop.Organisms {
			view := genetics.VerifOrganismView(o)
			if view.HasCachedPhenotype {
				c.Count("probe.organism_had_cached_phenotype")
			}
			if view.MutationStructBaby {
				c.Count("probe.baby_of_structural_mutation")
			}
			var net *network.Network
			var err error
			c.Lib("Organism.Phenotype", func() { net, err = o.Phenotype() })
			rec := Canon(o.Genotype)
			if err != nil {
				c.Fail("organism-phenotype-error", "world [start=%s] %s: Phenotype() of organism %d failed: %v\n%s", w.KindName, where, i, err, rec.Pretty())
			}
			ref := RefExpress(rec)
			if cl, d := ref.CompareNetwork(net); cl != "" {
				c.Fail("organism-phenotype:"+cl, "world [start=%s, executor %s] %s: the phenotype of organism %d (cached before: %t, structural-mutation baby: %t, mating baby: %t) does not express its current genome: %s\n%s",
					w.KindName, w.Opts.EpochExecutorType, where, i, view.HasCachedPhenotype, view.MutationStructBaby, view.MateBaby, d, rec.Pretty())
			}
			c.Count("probe.organism_phenotype_checked")
			c.Steps++
		}
	}
	checkGenome := func(g *genetics.Genome, where string) {
		rec := Canon(g)
		ref := RefExpress(rec)
		var net *network.Network
		var err error
		c.Lib("Genesis", func() { net, err = GenesisCopy(g) })
		if err != nil {
			c.Fail("genesis-error", "%s: Genesis failed: %v\n%s", where, err, rec.Pretty())
		}
		if cl, d := ref.CompareNetwork(net); cl != "" {
			c.Fail("expression:"+cl, "%s: %s\n%s", where, d, rec.Pretty())
		}
		var cl, d string
		c.Lib("graph view", func() { cl, d = ref.CompareGraphView(net) })
		if cl != "" {
			c.Fail(cl, "%s: %s\n%s", where, d, rec.Pretty())
		}
		h := rec.ShapeHash()
		c.State(h)
		c.Steps++
		if genomeFlags(c, rec) {
			c.Nontrivial(h)
		}
	}
	checkOrganisms("after construction")
	epochs := t.Range("epochs", 0, maxEpochs)
	for e := 0; e < epochs; e++ {
		snap := StepEpoch(c, w, false, nil, c.LibSoft)
		c.Op("epoch %d err=%v", e, snap.Err)
		if snap.Err != nil {
			c.Counters["abandoned.epoch-error"]++
			break
		}
		checkOrganisms(fmt.Sprintf("after epoch %d", e))
		for k := 0; k < 2; k++ {
			g := w.Pop.Organisms[t.Draw("genome.pick", len(w.Pop.Organisms))].Genotype
			checkGenome(g, fmt.Sprintf("world [start=%s] genome of generation %d", w.KindName, e))
		}
	}
	// re-expression: an organism that has a phenotype gets its genotype changed (as a caller's own mutation step would)
	// and is asked to update its phenotype; what it then reports must express the changed genome
	for k := t.Range("reexpress", 0, 3); k > 0 && len(w.Pop.Organisms) > 0; k-- {
		oi := t.Draw("reexpress.org", len(w.Pop.Organisms))
		o := w.Pop.Organisms[oi]
		if len(o.Genotype.Genes) == 0 {
			continue
		}
		c.LibSoft("Organism.Phenotype", func() { _, _ = o.Phenotype() })
		kind := t.Draw("reexpress.kind", 4)
		seedLib(int64(t.Draw("reexpress.libseed", 1<<31)))
		c.LibSoft("mutation before re-expression", func() {
			switch kind {
			case 0:
				gi := t.Draw("reexpress.gene", len(o.Genotype.Genes))
				o.Genotype.Genes[gi].IsEnabled = !o.Genotype.Genes[gi].IsEnabled
			case 1:
				_, _ = genetics.VerifMutateLinkWeights(o.Genotype, w.Opts.WeightMutPower, 1.0, false)
			case 2:
				_, _ = genetics.VerifMutateAddNode(o.Genotype, w.Pop, w.Pop, w.Opts)
			case 3:
				_, _ = genetics.VerifMutateAddLink(o.Genotype, w.Pop, w.Gen, w.Opts)
			}
		})
		var uerr error
		c.Lib("Organism.UpdatePhenotype", func() { uerr = o.UpdatePhenotype() })
		rec := Canon(o.Genotype)
		if uerr != nil {
			if len(rec.Genes) > 0 {
				c.Fail("organism-phenotype-error", "UpdatePhenotype() of organism %d failed after a mutation of its genotype: %v\n%s", oi, uerr, rec.Pretty())
			}
			continue
		}
		var net *network.Network
		var err error
		c.Lib("Organism.Phenotype", func() { net, err = o.Phenotype() })
		if err != nil {
			c.Fail("organism-phenotype-error", "Phenotype() of organism %d failed after UpdatePhenotype(): %v\n%s", oi, err, rec.Pretty())
		}
		if cl, d := RefExpress(rec).CompareNetwork(net); cl != "" {
			c.Fail("organism-phenotype:"+cl, "after its genotype was changed (%s) and UpdatePhenotype() was called, the phenotype of organism %d does not express its current genome: %s\n%s",
				[]string{"a gene's enabled flag flipped", "link weights mutated", "add-node", "add-link"}[kind], oi, d, rec.Pretty())
		}
		c.Count("probe.reexpressed_after_mutation")
		c.Steps++
	}
	// restore into a used organism: an organism object that has been evaluated (its phenotype is cached) receives the
	// saved binary form of another organism (a caller that recycles organism objects, or a gob decode into a structure
	// that already holds one); what it then reports as its phenotype must express the genome it holds now
	if len(w.Pop.Organisms) >= 2 && t.Chance("restoreInto", 1, 2) {
		ai := t.Draw("restoreInto.target", len(w.Pop.Organisms))
		bi := t.Draw("restoreInto.source", len(w.Pop.Organisms))
		a, b := w.Pop.Organisms[ai], w.Pop.Organisms[bi]
		if len(a.Genotype.Genes) > 0 && len(b.Genotype.Genes) > 0 {
			if t.Chance("restoreInto.mutateSource", 2, 3) {
				// make sure the source differs in structure from the target
				seedLib(int64(t.Draw("restoreInto.libseed", 1<<31)))
				c.LibSoft("mutation of the source", func() {
					if t.Chance("restoreInto.addnode", 1, 2) {
						_, _ = genetics.VerifMutateAddNode(b.Genotype, w.Pop, w.Pop, w.Opts)
					} else {
						gi := t.Draw("restoreInto.gene", len(b.Genotype.Genes))
						b.Genotype.Genes[gi].IsEnabled = !b.Genotype.Genes[gi].IsEnabled
					}
				})
			}
			var data []byte
			var merr, uerr error
			c.LibSoft("Organism.Phenotype", func() { _, _ = a.Phenotype() })
			c.LibSoft("Organism.MarshalBinary", func() { data, merr = b.MarshalBinary() })
			if merr == nil {
				c.LibSoft("Organism.UnmarshalBinary", func() { uerr = a.UnmarshalBinary(data) })
			}
			if merr == nil && uerr == nil {
				rec := Canon(a.Genotype)
				var net *network.Network
				var err error
				c.Lib("Organism.Phenotype", func() { net, err = a.Phenotype() })
				if err != nil {
					c.Fail("organism-phenotype-error", "Phenotype() of organism %d failed after UnmarshalBinary(): %v\n%s", ai, err, rec.Pretty())
				}
				if cl, d := RefExpress(rec).CompareNetwork(net); cl != "" {
					c.Fail("organism-phenotype:"+cl, "organism %d had been expressed and then received the binary form of organism %d through UnmarshalBinary(); its phenotype does not express the genome it holds now: %s\n%s", ai, bi, d, rec.Pretty())
				}
				c.Count("probe.restored_into_used_organism")
				c.Steps++
			}
		}
	}
	// an organism made from a genome that was expressed and then changed: a caller keeps a genome, looks at its network
	// (Genesis), applies its own mutation step and wraps the result in a new organism for evaluation. What that organism
	// reports as its phenotype must express the genome it was given.
	for k := t.Range("wrapChanged", 0, 2); k > 0 && len(w.Pop.Organisms) > 0; k-- {
		oi := t.Draw("wrapChanged.org", len(w.Pop.Organisms))
		var g *genetics.Genome
		c.LibSoft("duplicate", func() { g, _ = genetics.VerifDuplicate(w.Pop.Organisms[oi].Genotype, 9000+k) })
		if g == nil || len(g.Genes) == 0 {
			continue
		}
		c.LibSoft("Genome.Genesis", func() { _, _ = g.Genesis(g.Id) })
		kind := t.Draw("wrapChanged.kind", 3)
		seedLib(int64(t.Draw("wrapChanged.libseed", 1<<31)))
		what := ""
		c.LibSoft("mutation before the organism is made", func() {
			switch kind {
			case 0:
				gi := t.Draw("wrapChanged.gene", len(g.Genes))
				g.Genes[gi].IsEnabled = !g.Genes[gi].IsEnabled
				what = "one gene toggled"
			case 1:
				_, _ = genetics.VerifMutateLinkWeights(g, w.Opts.WeightMutPower, 1.0, false)
				what = "link weights mutated"
			case 2:
				_, _ = genetics.VerifMutateAddNode(g, w.Pop, w.Pop, w.Opts)
				what = "add-node"
			}
		})
		var org *genetics.Organism
		var oerr error
		c.LibSoft("NewOrganism", func() { org, oerr = genetics.NewOrganism(1.0, g, w.Gen) })
		if oerr != nil || org == nil {
			continue
		}
		rec := Canon(g)
		if len(rec.Genes) == 0 {
			continue
		}
		enabled := 0
		for _, gr := range rec.Genes {
			if gr.En {
				enabled++
			}
		}
		if enabled == 0 {
			continue // a genome without an enabled gene cannot be expressed
		}
		var net *network.Network
		var err error
		c.Lib("Organism.Phenotype", func() { net, err = org.Phenotype() })
		if err != nil {
			c.Fail("organism-phenotype-error", "Phenotype() of an organism made from a changed genome failed: %v\n%s", err, rec.Pretty())
		}
		if cl, d := RefExpress(rec).CompareNetwork(net); cl != "" {
			c.Fail("organism-phenotype:"+cl, "a genome was expressed (Genesis), then changed (%s), then wrapped by NewOrganism; the organism's phenotype does not express the genome it holds: %s\n%s", what, d, rec.Pretty())
		}
		c.Count("probe.organism_made_from_changed_genome")
		c.Steps++
	}
	// modular genomes
	switch t.Pick("modular", 2, 1, 2) {
	case 1:
		if g, err := LoadShipped("test_seed_genome.yml"); err == nil {
			checkGenome(g, "shipped modular genome test_seed_genome.yml")
		}
	case 2:
		checkGenome(BuildModularGenome(t), "generated modular genome")
	}
	checkGenome(BuildGenome(t, GenomeSpec{AllowDisabled: true, MaxHidden: 4, ActSwarm: true, OutToOut: true, NoInputsSometimes: true}), "generated genome")
}

func outsClose(a, b []float64) (int, bool) {
	if len(a) != len(b) {
		return -1, false
	}
	for i := range a {
		if math.IsNaN(b[i]) || math.IsInf(b[i], 0) {
			continue
		}
		if math.Abs(a[i]-b[i]) > 1e-9*math.Max(1, math.Abs(b[i])) {
			return i, false
		}
	}
	return 0, true
}

// BuildDeepChain hand-builds a feed-forward genome with one long path (20..32 links) of tanh / linear neurons plus a
// short cut, so that the depth matters and the signal neither saturates nor dies on the way.
func BuildDeepChain(t *Tape) *genetics.Genome {
	tr := neat.NewTrait()
	tr.Id = 1
	depth := t.Range("deep.depth", 20, 32)
	var nodes []*network.NNode
	in := network.NewSensorNode(1, false)
	bias := network.NewSensorNode(2, true)
	out := network.NewNNode(3, network.OutputNeuron)
	out.ActivationType = neatmath.TanhActivation
	nodes = append(nodes, in, bias, out)
	var genes []*genetics.Gene
	innov := int64(1)
	link := func(a, b *network.NNode, w float64) {
		g := genetics.NewGene(w, a, b, false, innov, w)
		g.Link.InNode, g.Link.OutNode, g.Link.ConnectionWeight, g.Link.IsRecurrent, g.IsEnabled = a, b, w, false, true
		genes = append(genes, g)
		innov++
	}
	prev := in
	for i := 0; i < depth-1; i++ {
		h := network.NewNNode(4+i, network.HiddenNeuron)
		h.ActivationType = []neatmath.NodeActivationType{neatmath.TanhActivation, neatmath.LinearActivation}[t.Draw("deep.act", 2)]
		nodes = append(nodes, h)
		link(prev, h, 0.7+0.6*t.Float("deep.w"))
		prev = h
	}
	link(prev, out, 0.9)
	link(bias, out, 0.3*t.Float("deep.bias"))
	if t.Chance("deep.shortcut", 1, 2) {
		link(in, out, 0.2)
	}
	return genetics.NewGenome(1, []*neat.Trait{tr}, nodes, genes)
}

func scenarioC12(c *RunCtx) {
	t := c.T
	maxPop, maxEpochs := 16, 12
	if c.Thorough {
		maxPop, maxEpochs = 40, 40
	}
	spec := WorldSpec{
		Prof:         OptProfile{MinPop: 3, MaxPop: maxPop, Parallel: 0, Structural: 1, NoRecurrent: true, ActivationSwarm: true},
		Genome:       GenomeSpec{AllowDisabled: true, MaxHidden: 4, ActSwarm: true, FeedForwardOnly: true},
		AllowShipped: true,
		Landscapes:   []int{LandStructural, LandUniform, LandDistinct},
	}
	w, genomes := EvolveForNets(c, spec, maxEpochs, t.Range("nets", 1, 4))
	c.Sample = w.Describe()
	c.Op("world: %s", w.Describe())
	genomes = append(genomes, BuildGenome(t, GenomeSpec{AllowDisabled: true, MaxHidden: 5, ActSwarm: true, FeedForwardOnly: true, OutToOut: true, NoInputsSometimes: true}))
	if t.Chance("parallelLinks", 1, 6) {
		// two genes may join the same ordered node pair when their recurrence flags differ; the flag is a label, the
		// network stays acyclic and both links carry signal
		g := BuildGenome(t, GenomeSpec{AllowDisabled: true, MaxHidden: 4, ActSwarm: true, FeedForwardOnly: true})
		maxInn := int64(0)
		for _, gn := range g.Genes {
			if gn.InnovationNum > maxInn {
				maxInn = gn.InnovationNum
			}
		}
		n := len(g.Genes)
		for k := t.Range("parallelLinks.n", 1, 2); k > 0; k-- {
			src := g.Genes[t.Draw("parallelLinks.src", n)]
			dup := false
			for _, gn := range g.Genes {
				if gn != src && gn.Link.InNode == src.Link.InNode && gn.Link.OutNode == src.Link.OutNode {
					dup = true
				}
			}
			if dup {
				continue
			}
			maxInn++
			w := math.Round((t.Float("parallelLinks.w")*4-2)*1000) / 1000
			ng := genetics.NewGene(w, src.Link.InNode, src.Link.OutNode, true, maxInn, w)
			ng.Link.InNode, ng.Link.OutNode, ng.Link.IsRecurrent, ng.Link.ConnectionWeight, ng.IsEnabled = src.Link.InNode, src.Link.OutNode, true, w, true
			g.Genes = append(g.Genes, ng)
		}
		genomes = append(genomes, g)
		c.Count("probe.net.parallel_links")
	}
	if t.Chance("deepChain", 1, 12) {
		genomes = append(genomes, BuildDeepChain(t))
		c.Count("probe.net.deep_chain")
	}
	for gi, g := range genomes {
		rec := Canon(g)
		ref := RefExpress(rec)
		info := ref.Analyse()
		if !info.Acyclic {
			c.Count("skipped.cyclic")
			continue
		}
		if !info.AllReachable || len(ref.Outputs) == 0 {
			c.Count("skipped.unreachable_neuron")
			continue
		}
		L := info.LongestFromSen
		if L < 1 {
			c.Count("skipped.unreachable_neuron")
			continue
		}
		// probes
		biasMatters, skip, nonSig := false, false, false
		depthOf := map[int]int{}
		for _, u := range info.Order {
			d := 0
			for _, e := range info.in[u] {
				if depthOf[e.In]+1 > d {
					d = depthOf[e.In] + 1
				}
			}
			depthOf[u] = d
		}
		for _, e := range ref.Edges {
			if ref.neuron(e.In) == int(network.BiasNeuron) && f64(e.W) != 0 {
				biasMatters = true
			}
			if depthOf[e.Out]-depthOf[e.In] > 1 {
				skip = true
			}
		}
		for _, nd := range ref.Nodes {
			if !isSensorType(nd.Neuron) && nd.Act != 4 {
				nonSig = true
			}
		}
		if info.HasHidden {
			c.Count("probe.net.hidden")
		}
		if biasMatters {
			c.Count("probe.net.bias_link_matters")
		}
		if L >= 3 {
			c.Count("probe.net.depth>=3")
		}
		if skip {
			c.Count("probe.net.skip_connection")
		}
		if len(ref.Outputs) > 1 {
			c.Count("probe.net.multi_output")
		}
		if nonSig {
			c.Count("probe.net.nonsigmoid_activation")
		}
		nin := ref.NumPlainInputs()
		nvec := t.Range("vectors", 1, 3)
		// one standard network and one fast solver are kept for the whole series of input vectors and flushed between
		// evaluations, the way an organism is evaluated repeatedly; each evaluation uses a tape-chosen mode
		var keptStd *network.Network
		var keptFast network.Solver
		for v := 0; v < nvec; v++ {
			sub := t.Sub("inputs")
			in := make([]float64, nin)
			scale := []float64{1, 1, 5, 0.01}[t.Draw("inscale", 4)]
			for i := range in {
				in[i] = (sub.Float()*2 - 1) * scale
			}
			want, margin, err := ref.Evaluate(info, in)
			if err != nil {
				c.Skip("reference-activation-error")
			}
			if margin < 1e-9 {
				c.Count("skipped.discontinuity")
				continue
			}
			ctx := func() string {
				return fmt.Sprintf("genome %d of the run, inputs %v, longest sensor-to-output path %d\n%s", gi, in, L, rec.Pretty())
			}
			extra := t.Draw("extraSteps", 4)
			// standard solver
			type run struct {
				name string
				f    func() ([]float64, error)
			}
			// the network under test: the phenotype Genesis builds, or (a share of the vectors) a network built by hand
			// from the same structure through network.NewNetwork with its all-nodes list in a tape-chosen order
			var perm []int
			handBuilt := len(ref.Mods) == 0 && t.Chance("handBuilt", 1, 4)
			if handBuilt {
				c.Count("probe.net.hand_built_permuted")
				sub := t.Sub("handBuilt.perm")
				perm = make([]int, len(ref.Nodes))
				for i := range perm {
					perm[i] = i
				}
				for i := len(perm) - 1; i > 0; i-- {
					j := sub.Intn(i + 1)
					perm[i], perm[j] = perm[j], perm[i]
				}
			}
			mkStd := func() (*network.Network, error) {
				if handBuilt {
					return ref.BuildNetwork(perm), nil
				}
				return GenesisCopy(g)
			}
			runs := []run{
				{"Network.ForwardSteps", func() ([]float64, error) {
					net, err := mkStd()
					if err != nil {
						return nil, err
					}
					if err = net.LoadSensors(in); err != nil {
						return nil, err
					}
					if _, err = net.ForwardSteps(L + extra); err != nil {
						return nil, err
					}
					return net.ReadOutputs(), nil
				}},
				{"Network.RecursiveSteps", func() ([]float64, error) {
					net, err := mkStd()
					if err != nil {
						return nil, err
					}
					if err = net.LoadSensors(in); err != nil {
						return nil, err
					}
					if _, err = net.RecursiveSteps(); err != nil {
						return nil, err
					}
					return net.ReadOutputs(), nil
				}},
				{"fast ForwardSteps", func() ([]float64, error) {
					net, err := mkStd()
					if err != nil {
						return nil, err
					}
					s, err := net.FastNetworkSolver()
					if err != nil {
						return nil, err
					}
					if err = s.LoadSensors(in); err != nil {
						return nil, err
					}
					if _, err = s.ForwardSteps(L + extra); err != nil {
						return nil, err
					}
					return s.ReadOutputs(), nil
				}},
				{"fast RecursiveSteps", func() ([]float64, error) {
					net, err := mkStd()
					if err != nil {
						return nil, err
					}
					s, err := net.FastNetworkSolver()
					if err != nil {
						return nil, err
					}
					if err = s.LoadSensors(in); err != nil {
						return nil, err
					}
					if _, err = s.RecursiveSteps(); err != nil {
						return nil, err
					}
					return s.ReadOutputs(), nil
				}},
				{"fast Relax", func() ([]float64, error) {
					net, err := mkStd()
					if err != nil {
						return nil, err
					}
					s, err := net.FastNetworkSolver()
					if err != nil {
						return nil, err
					}
					if err = s.LoadSensors(in); err != nil {
						return nil, err
					}
					// either the solver stops early because nothing changed any more, or it runs all steps (>= L):
					// in both cases the outputs hold the feed-forward values; the relaxed flag itself is not judged
					if _, err = s.Relax(L+2+extra, math.SmallestNonzeroFloat64); err != nil {
						return nil, err
					}
					return s.ReadOutputs(), nil
				}},
			}
			for _, r := range runs {
				if r.name == "Network.RecursiveSteps" && !info.HasHidden {
					// the standard network derives its step count from MaxActivationDepth, which the properties
					// specify only for networks with a hidden node (C14); not judged here
					continue
				}
				var got []float64
				var err error
				c.Lib(r.name, func() { got, err = r.f() })
				if err != nil {
					c.Fail("solver-error:"+r.name, "%s returned an error on a feed-forward network: %v\n%s", r.name, err, ctx())
				}
				if i, ok := outsClose(got, want); !ok {
					c.Fail("wrong-output:"+r.name, "%s gives %v, evaluating each neuron once in topological order gives %v (output %d differs)\n%s", r.name, got, want, i, ctx())
				}
			}
			// the kept instances: Flush, load, one mode
			if keptStd == nil {
				c.Lib("Genesis", func() {
					if keptStd, err = mkStd(); err == nil {
						keptFast, err = keptStd.FastNetworkSolver()
					}
				})
				if err != nil {
					c.Fail("solver-error:construct", "cannot build the solvers of a feed-forward network: %v\n%s", err, ctx())
				}
			}
			stdMode, fastMode := t.Draw("kept.std.mode", 2), t.Draw("kept.fast.mode", 3)
			rejectedLoad := t.Chance("kept.fast.rejectedLoad", 1, 4)
			var badVec []float64
			if rejectedLoad {
				n := len(in) + 1 + t.Draw("badVec.extra", 3)
				if len(in) > 1 && t.Chance("badVec.short", 1, 2) {
					n = 1 + t.Draw("badVec.len", len(in)-1)
				}
				bs := t.Sub("badVec.vals")
				badVec = make([]float64, n)
				for i := range badVec {
					badVec[i] = bs.Float()*6 - 3
				}
				c.Count("fault.rejected_sensor_load")
			}
			if !info.HasHidden {
				stdMode = 0
			}
			var gotStd, gotFast []float64
			var errStd, errFast error
			// between two evaluations the instances are flushed - or, in a share of the cases, not: the outputs of a
			// feed-forward network after a load and enough propagation are a function of the loaded vector alone
			noFlush := v > 0 && t.Chance("kept.noFlush", 1, 3)
			if noFlush {
				c.Count("probe.reused_without_flush")
			}
			c.Lib("kept instances", func() {
				if v > 0 && !noFlush {
					if _, errStd = keptStd.Flush(); errStd != nil {
						return
					}
					if _, errFast = keptFast.Flush(); errFast != nil {
						return
					}
				}
				if errStd = keptStd.LoadSensors(in); errStd == nil {
					if stdMode == 0 {
						_, errStd = keptStd.ForwardSteps(L + extra)
					} else {
						_, errStd = keptStd.RecursiveSteps()
					}
					gotStd = keptStd.ReadOutputs()
				}
				if errFast = keptFast.LoadSensors(in); errFast == nil {
					if rejectedLoad {
						// a load of the wrong size is rejected; a rejected load must leave the loaded sensor values alone
						if e2 := keptFast.LoadSensors(badVec); e2 == nil {
							errFast = fmt.Errorf("LoadSensors accepted %d values for %d inputs", len(badVec), len(in))
							return
						}
					}
					switch fastMode {
					case 0:
						_, errFast = keptFast.ForwardSteps(L + extra)
					case 1:
						_, errFast = keptFast.RecursiveSteps()
					case 2:
						_, errFast = keptFast.Relax(L+2+extra, math.SmallestNonzeroFloat64)
					}
					gotFast = keptFast.ReadOutputs()
				}
			})
			stdName := []string{"Network.ForwardSteps", "Network.RecursiveSteps"}[stdMode]
			fastName := []string{"fast ForwardSteps", "fast RecursiveSteps", "fast Relax"}[fastMode]
			if errStd != nil || errFast != nil {
				c.Fail("solver-error:reused-instance", "evaluation %d on a flushed, reused instance returned an error (%s: %v, %s: %v)\n%s", v, stdName, errStd, fastName, errFast, ctx())
			}
			if i, ok := outsClose(gotStd, want); !ok {
				c.Fail("wrong-output:reused:"+stdName, "evaluation %d on the same, flushed network: %s gives %v, evaluating each neuron once in topological order gives %v (output %d differs)\n%s", v, stdName, gotStd, want, i, ctx())
			}
			if i, ok := outsClose(gotFast, want); !ok {
				c.Fail("wrong-output:reused:"+fastName, "evaluation %d on the same, flushed fast solver: %s gives %v, evaluating each neuron once in topological order gives %v (output %d differs)\n%s", v, fastName, gotFast, want, i, ctx())
			}
			if v > 0 {
				c.Count("probe.reused_after_flush")
			}
			h := Mix(rec.ShapeHash(), sub.U64())
			c.State(h)
			c.Steps++
			if info.HasHidden || biasMatters {
				c.Nontrivial(h)
			}
		}
	}
}

// ----- C13 / C14: activation and query histories -----

type netOp struct {
	kind int
	k    int
	vec  []float64
	cap  int
}

const (
	nopLoad = iota
	nopActivate
	nopActivateSteps
	nopForward
	nopRecursive
	nopRelax
	nopDepth
	nopDepthCap
	nopPrintPaths
	nopNodeDepth
	numNetOps
)

func (o netOp) String() string {
	switch o.kind {
	case nopLoad:
		return fmt.Sprintf("LoadSensors(%v)", o.vec)
	case nopActivate:
		return "Activate()"
	case nopActivateSteps:
		return fmt.Sprintf("ActivateSteps(%d)", o.k)
	case nopForward:
		return fmt.Sprintf("ForwardSteps(%d)", o.k)
	case nopRecursive:
		return "RecursiveSteps()"
	case nopRelax:
		return fmt.Sprintf("Relax(%d, 1e-6)", o.k)
	case nopDepth:
		return "MaxActivationDepth()"
	case nopDepthCap:
		return fmt.Sprintf("MaxActivationDepthWithCap(%d)", o.cap)
	case nopPrintPaths:
		if o.k >= 0 {
			return fmt.Sprintf("PrintAllActivationDepthPaths(writer failing at byte %d)", o.k)
		}
		return "PrintAllActivationDepthPaths(w)"
	case nopNodeDepth:
		return fmt.Sprintf("Outputs[%d %% n].Depth(0, %d)", o.k, o.cap)
	}
	return "?"
}

func drawNetOps(t *Tape, n, nin int, label string) []netOp {
	return drawNetOpsSized(t, n, nin, -1, label)
}

// drawNetOpsSized: with nsens >= 0 (the number of sensors, bias nodes included) a share of the loads has another legal
// size: one value per sensor (the caller supplies the bias values, which need not be one) or more values than there are
// sensors (the standard network takes the first ones, the fast solver rejects the call).
func drawNetOpsSized(t *Tape, n, nin, nsens int, label string) []netOp {
	var ops []netOp
	for i := 0; i < n; i++ {
		o := netOp{kind: t.Pick(label+".op", 4, 2, 2, 3, 2, 1, 1, 2, 1, 1)}
		switch o.kind {
		case nopLoad:
			sub := t.Sub(label + ".vec")
			size := nin
			if nsens >= 0 {
				switch t.Pick(label+".vecsize", 6, 1, 1) {
				case 1:
					size = nsens
				case 2:
					size = nsens + 1 + t.Draw(label+".vecextra", 2)
				}
			}
			o.vec = make([]float64, size)
			zero := t.Chance(label+".zerovec", 1, 6) // the all-zero pattern (XOR's {0,0}) is an input vector like any other
			for j := range o.vec {
				if !zero {
					o.vec[j] = math.Round((sub.Float()*4-2)*1000) / 1000
				}
			}
		case nopActivateSteps, nopForward, nopRelax:
			o.k = 1 + t.Draw(label+".k", 4)
		case nopDepthCap:
			o.cap = 1 + t.Draw(label+".cap", 4)
		case nopNodeDepth:
			o.k = t.Draw(label+".out", 4)
			o.cap = t.Draw(label+".ncap", 4) // 0 = no cap
		case nopPrintPaths:
			// the writer may fail after a few write calls (a closed pipe): the printer then stops in mid-walk
			o.k = -1
			if t.Chance(label+".printfail", 1, 2) {
				o.k = t.Draw(label+".printfail.at", 40)
			}
		}
		ops = append(ops, o)
	}
	return ops
}

// obs is what an operation lets the caller observe.
type obs struct {
	res  bool
	num  int
	err  string
	outs []uint64
}

func (a obs) equal(b obs) bool {
	if a.res != b.res || a.num != b.num || a.err != b.err || len(a.outs) != len(b.outs) {
		return false
	}
	for i := range a.outs {
		if a.outs[i] != b.outs[i] {
			return false
		}
	}
	return true
}

func bits(v []float64) []uint64 {
	r := make([]uint64, len(v))
	for i, x := range v {
		r[i] = math.Float64bits(x)
	}
	return r
}

func errStr(err error) string {
	if err == nil {
		return ""
	}
	return err.Error()
}

func applyStd(net *network.Network, o netOp) obs {
	var r obs
	var err error
	switch o.kind {
	case nopLoad:
		err = net.LoadSensors(o.vec)
	case nopActivate:
		r.res, err = net.Activate()
	case nopActivateSteps:
		r.res, err = net.ActivateSteps(o.k)
	case nopForward:
		r.res, err = net.ForwardSteps(o.k)
	case nopRecursive:
		r.res, err = net.RecursiveSteps()
	case nopRelax:
		r.res, err = net.Relax(o.k, 1e-6)
	case nopDepth:
		r.num, err = net.MaxActivationDepth()
	case nopDepthCap:
		r.num, err = net.MaxActivationDepthWithCap(o.cap)
	case nopPrintPaths:
		w := NewSimWriter(o.k) // o.k < 0: never fails; otherwise the device fails from byte o.k on
		err = network.PrintAllActivationDepthPaths(net, w)
		r.num = len(w.Buf)
	case nopNodeDepth:
		if len(net.Outputs) > 0 {
			r.num, err = net.Outputs[o.k%len(net.Outputs)].Depth(0, o.cap)
		}
	}
	r.err = errStr(err)
	r.outs = bits(net.ReadOutputs())
	return r
}

func applyFast(s network.Solver, o netOp) obs {
	var r obs
	var err error
	switch o.kind {
	case nopLoad:
		err = s.LoadSensors(o.vec)
	case nopActivate, nopActivateSteps, nopForward:
		k := o.k
		if k == 0 {
			k = 2
		}
		r.res, err = s.ForwardSteps(k)
	case nopRecursive:
		r.res, err = s.RecursiveSteps()
	case nopRelax:
		r.res, err = s.Relax(o.k, 1e-6)
	case nopDepth, nopDepthCap, nopPrintPaths, nopNodeDepth:
		r.res, err = s.Relax(1, 0)
	}
	r.err = errStr(err)
	r.outs = bits(s.ReadOutputs())
	return r
}

func netSpec(t *Tape, maxPop int, recurrent bool) WorldSpec {
	return WorldSpec{
		Prof:         OptProfile{MinPop: 3, MaxPop: maxPop, Parallel: 0, Structural: 1, NoRecurrent: !recurrent, ForceRecurrent: recurrent, ActivationSwarm: true},
		Genome:       GenomeSpec{AllowDisabled: true, MaxHidden: 3, ActSwarm: true, FeedForwardOnly: !recurrent},
		AllowShipped: true,
		Landscapes:   []int{LandStructural, LandUniform},
	}
}

func scenarioC13(c *RunCtx) {
	t := c.T
	maxPop, maxEpochs, maxOps := 14, 10, 8
	if c.Thorough {
		maxPop, maxEpochs, maxOps = 30, 30, 20
	}
	recurrent := t.Chance("recurrentWorld", 2, 3)
	w, genomes := EvolveForNets(c, netSpec(t, maxPop, recurrent), maxEpochs, t.Range("nets", 1, 3))
	c.Sample = w.Describe()
	c.Op("world: %s", w.Describe())
	genomes = append(genomes, BuildGenome(t, GenomeSpec{AllowDisabled: true, MaxHidden: 3, ActSwarm: true, FeedForwardOnly: !recurrent, OutToOut: true}))
	if t.Chance("modularNet", 1, 2) {
		genomes = append(genomes, BuildModularGenome(t))
		c.Count("probe.modular_network")
		if t.Chance("modularNet.second", 1, 2) {
			genomes = append(genomes, BuildModularGenome(t))
		}
	}
	for gi, g := range genomes {
		rec := Canon(g)
		if len(rec.Nodes) > 14 {
			continue
		}
		ref := RefExpress(rec)
		info := ref.Analyse()
		hasRec, selfLoop := false, false
		for _, e := range ref.Edges {
			if e.Rec {
				hasRec = true
			}
			if e.In == e.Out {
				selfLoop = true
			}
		}
		if hasRec {
			c.Count("probe.net.recurrent_link")
		}
		if selfLoop {
			c.Count("probe.net.self_loop")
		}
		if !info.Acyclic {
			c.Count("probe.net.cyclic")
		}
		nin := ref.NumPlainInputs()
		nsens := len(ref.Inputs)
		if nsens != nin {
			c.Count("probe.net.bias_node")
		}
		hist := drawNetOpsSized(t, t.Range("history", 0, maxOps), nin, nsens, "hist")
		seq := drawNetOpsSized(t, t.Range("sequence", 1, maxOps), nin, nsens, "seq")
		for _, o := range append(append([]netOp(nil), hist...), seq...) {
			if o.kind == nopLoad && len(o.vec) != nin {
				c.Count("probe.load_other_size")
				break
			}
		}
		if len(hist) > 0 {
			c.Count("probe.history.nonempty")
		}
		fast := t.Chance("fast", 1, 2)
		var describe = func() string {
			s := fmt.Sprintf("genome %d of the run: %s\nhistory:", gi, rec.Pretty())
			for _, o := range hist {
				s += " " + o.String() + ";"
			}
			s += "\nthen Flush(), then:"
			for _, o := range seq {
				s += " " + o.String() + ";"
			}
			return s
		}
		var used, fresh func(o netOp) obs
		var flush func() (bool, error)
		var mkErr error
		c.Lib("build networks", func() {
			n1, e1 := GenesisCopy(g)
			n2, e2 := GenesisCopy(g)
			if e1 != nil || e2 != nil {
				mkErr = fmt.Errorf("%v %v", e1, e2)
				return
			}
			if fast {
				s1, e1 := n1.FastNetworkSolver()
				s2, e2 := n2.FastNetworkSolver()
				if e1 != nil || e2 != nil {
					mkErr = fmt.Errorf("%v %v", e1, e2)
					return
				}
				used = func(o netOp) obs { return applyFast(s1, o) }
				fresh = func(o netOp) obs { return applyFast(s2, o) }
				flush = s1.Flush
			} else {
				used = func(o netOp) obs { return applyStd(n1, o) }
				fresh = func(o netOp) obs { return applyStd(n2, o) }
				flush = n1.Flush
			}
		})
		if mkErr != nil {
			c.Skip("cannot-build-network")
		}
		if fast {
			c.Count("probe.fast_solver")
		} else {
			c.Count("probe.standard_network")
		}
		c.Lib("history", func() {
			for _, o := range hist {
				r := used(o)
				if r.err != "" && (o.kind == nopActivateSteps || o.kind == nopActivate || o.kind == nopForward) {
					c.Count("fault.activation_cut_short")
				}
				if o.kind == nopDepthCap && r.err != "" {
					c.Count("fault.capped_depth_query")
				}
			}
		})
		var fres bool
		var ferr error
		c.Lib("Flush", func() { fres, ferr = flush() })
		if ferr != nil || !fres {
			c.Fail("flush-error", "Flush returned (%t, %v)\n%s", fres, ferr, describe())
		}
		for i, o := range seq {
			var a, b obs
			c.Lib(o.String(), func() {
				a = used(o)
				b = fresh(o)
			})
			if !a.equal(b) {
				kind := "standard network"
				if fast {
					kind = "fast solver"
				}
				c.Fail("flushed-differs-from-fresh", "%s: step %d of the sequence, %s: the flushed instance gives (result %t/%d, error %q, outputs %v), a fresh instance gives (result %t/%d, error %q, outputs %v)\n%s",
					kind, i, o.String(), a.res, a.num, a.err, floats(a.outs), b.res, b.num, b.err, floats(b.outs), describe())
			}
		}
		hh := uint64(len(hist))
		for _, o := range hist {
			hh = Mix(hh, uint64(o.kind), uint64(o.k), uint64(o.cap))
		}
		h := Mix(rec.ShapeHash(), hh, b2u(fast))
		c.State(h)
		c.Steps++
		if hasRec || !info.Acyclic {
			c.Nontrivial(h)
		}
	}
}

func floats(b []uint64) []float64 {
	r := make([]float64, len(b))
	for i, x := range b {
		r[i] = f64(x)
	}
	return r
}

// withDisabledModule returns a harness copy of g that carries one disabled module over two of its nodes.
func withDisabledModule(t *Tape, g *genetics.Genome) *genetics.Genome {
	cl := CloneGenome(g, g.Id)
	maxId, maxInn := 0, int64(0)
	for _, n := range cl.Nodes {
		if n.Id > maxId {
			maxId = n.Id
		}
	}
	for _, gn := range cl.Genes {
		if gn.InnovationNum > maxInn {
			maxInn = gn.InnovationNum
		}
	}
	cn := network.NewNNode(maxId+1, network.HiddenNeuron)
	cn.ActivationType = neatmath.MultiplyModuleActivation
	cn.AddIncoming(cl.Nodes[t.Draw("dm.in", len(cl.Nodes))], 1.0)
	cn.AddOutgoing(cl.Nodes[len(cl.Nodes)-1-t.Draw("dm.out", len(cl.Nodes))], 1.0)
	mg := genetics.NewMIMOGene(cn, maxInn+1, 0, false)
	mg.IsEnabled = false
	return genetics.NewModularGenome(cl.Id, cl.Traits, cl.Nodes, cl.Genes, []*genetics.MIMOControlGene{mg})
}

func scenarioC14(c *RunCtx) {
	t := c.T
	maxPop, maxEpochs, maxQ := 14, 12, 6
	if c.Thorough {
		maxPop, maxEpochs, maxQ = 30, 40, 14
	}
	recurrent := t.Chance("recurrentWorld", 1, 2)
	w, genomes := EvolveForNets(c, netSpec(t, maxPop, recurrent), maxEpochs, t.Range("nets", 1, 3))
	c.Sample = w.Describe()
	c.Op("world: %s", w.Describe())
	genomes = append(genomes, BuildGenome(t, GenomeSpec{AllowDisabled: true, MaxHidden: 5, FeedForwardOnly: !recurrent, OutToOut: true}))
	for gi, g := range genomes {
		if len(g.Nodes) >= 2 && t.Chance("disabledModule", 1, 5) {
			// a genome whose modules are all disabled expresses a network without control nodes: non-modular in effect
			g = withDisabledModule(t, g)
			c.Count("probe.disabled_module_genome")
		}
		rec := Canon(g)
		if len(rec.Nodes) > 14 || len(rec.Genes) > 40 {
			c.Count("skipped.too_large")
			continue
		}
		ref := RefExpress(rec)
		info := ref.Analyse()
		if !info.HasHidden {
			c.Count("skipped.no_hidden_node")
			continue
		}
		c.Op("network %d: %s", gi, rec.Pretty())
		var net, freshNet *network.Network
		var err error
		c.LibSoft("Genesis", func() {
			net, err = GenesisCopy(g)
			if err == nil {
				freshNet, err = GenesisCopy(g)
			}
		})
		if err != nil {
			c.Skip("cannot-build-network")
		}
		// the uncapped answer of a fresh network
		var base int
		var berr error
		c.Lib("MaxActivationDepth", func() { base, berr = freshNet.MaxActivationDepth() })
		if berr != nil {
			c.Fail("depth-error", "MaxActivationDepth on a fresh network returned %v\n%s", berr, rec.Pretty())
		}
		if info.Acyclic {
			c.Count("probe.dag")
			if base != info.LongestToOut {
				c.Fail("dag-depth", "MaxActivationDepth = %d, the longest path ending in an output has %d links\n%s", base, info.LongestToOut, rec.Pretty())
			}
			if base >= 3 {
				c.Count("probe.depth>=3")
			}
			indeg := map[int]int{}
			for _, e := range ref.Edges {
				indeg[e.In]++
			}
			for _, v := range indeg {
				if v >= 2 {
					c.Count("probe.shared_subpath")
					break
				}
			}
		} else {
			c.Count("probe.cyclic")
			if base < 0 || base > len(rec.Nodes) {
				c.Fail("cyclic-depth-bounds", "MaxActivationDepth = %d on a cyclic network with %d nodes\n%s", base, len(rec.Nodes), rec.Pretty())
			}
		}
		// query history on one instance; every answer must be what a fresh network answers
		nq := t.Range("queries", 1, maxQ)
		hh := uint64(nq)
		hitCap := false
		var trace string
		nin := ref.NumPlainInputs()
		for q := 0; q < nq; q++ {
			kind := t.Pick("query", 3, 4, 1, 1, 1, 1)
			switch kind {
			case 5:
				// the recurrence check mutateAddLink makes on the phenotype: a walk over the same nodes
				if all := net.AllNodes(); len(all) >= 2 {
					a, b := all[t.Draw("isrec.a", len(all))], all[t.Draw("isrec.b", len(all))]
					count := 0
					var rec bool
					c.LibSoft("Network.IsRecurrent", func() { rec = net.IsRecurrent(a, b, &count, len(all)*len(all)) })
					trace += fmt.Sprintf(" IsRecurrent(%d,%d)=%t;", a.Id, b.Id, rec)
					c.Count("probe.isrecurrent_then_query")
				}
			case 3:
				// the path printer walks the same marks
				failAt := -1
				if t.Chance("print.fail", 1, 2) {
					failAt = t.Draw("print.fail.at", 40)
					c.Count("fault.print_paths_writer_error")
				}
				pw := NewSimWriter(failAt)
				c.LibSoft("PrintAllActivationDepthPaths", func() { _ = network.PrintAllActivationDepthPaths(net, pw) })
				trace += fmt.Sprintf(" PrintAllActivationDepthPaths(writer failing at byte %d);", failAt)
				c.Count("probe.print_paths_then_query")
			case 4:
				// a depth query put to an output node directly (the method is exported), with or without a cap; the same
				// query on the fresh network must agree, and it must leave no marks either
				if len(net.Outputs) > 0 && len(freshNet.Outputs) == len(net.Outputs) {
					oi := t.Draw("node.out", len(net.Outputs))
					cp := t.Draw("node.cap", base+2) // 0 = no cap
					var got, want int
					var gerr, werr error
					c.Lib("NNode.Depth", func() {
						got, gerr = net.Outputs[oi].Depth(0, cp)
						if brandNew, err := GenesisCopy(g); err == nil && len(brandNew.Outputs) == len(net.Outputs) {
							want, werr = brandNew.Outputs[oi].Depth(0, cp)
						} else {
							want, werr = got, gerr
						}
					})
					trace += fmt.Sprintf(" Outputs[%d].Depth(0,%d);", oi, cp)
					if got != want || (gerr == nil) != (werr == nil) {
						c.Fail("query-leaves-marks", "after the queries [%s] output node %d answers Depth(0,%d) = (%d, %v); a newly built network answers (%d, %v)\n%s", trace, net.Outputs[oi].Id, cp, got, gerr, want, werr, rec.Pretty())
					}
					if gerr != nil {
						hitCap = true
					}
					c.Count("probe.direct_node_depth_query")
				}
			case 0:
				var got int
				var gerr error
				c.Lib("MaxActivationDepth", func() { got, gerr = net.MaxActivationDepth() })
				trace += " MaxActivationDepth();"
				if gerr != nil || got != base {
					if hitCap {
						c.Count("probe.cap_hit_then_query")
					}
					c.Fail("query-leaves-marks", "after the queries [%s] the same network answers MaxActivationDepth = %d (error %v); a fresh network answers %d\n%s", trace, got, gerr, base, rec.Pretty())
				}
				if hitCap {
					c.Count("probe.cap_hit_then_query")
				}
			case 1:
				cp := 1 + t.Draw("cap", base+2)
				var got int
				var gerr error
				c.Lib("MaxActivationDepthWithCap", func() { got, gerr = net.MaxActivationDepthWithCap(cp) })
				trace += fmt.Sprintf(" MaxActivationDepthWithCap(%d);", cp)
				if base <= cp {
					if gerr != nil || got != base {
						c.Fail("capped-depth", "after the queries [%s]: cap %d is not exceeded by the depth %d, yet the answer is (%d, %v)\n%s", trace, cp, base, got, gerr, rec.Pretty())
					}
				} else {
					if !errors.Is(gerr, network.ErrMaximalNetDepthExceeded) || got != cp {
						c.Fail("capped-depth", "after the queries [%s]: the depth %d exceeds cap %d, yet the answer is (%d, %v) instead of (%d, depth-exceeded error)\n%s", trace, base, cp, got, gerr, cp, rec.Pretty())
					}
					hitCap = true
					c.Count("fault.capped_depth_query_hit")
				}
				hh = Mix(hh, uint64(cp))
			case 2:
				vec := make([]float64, nin)
				c.LibSoft("activate", func() {
					_ = net.LoadSensors(vec)
					_, _ = net.ActivateSteps(2)
				})
				trace += " LoadSensors+ActivateSteps(2);"
			}
			hh = Mix(hh, uint64(kind))
		}
		h := Mix(rec.ShapeHash(), hh)
		c.State(h)
		c.Steps++
		if hitCap {
			c.Nontrivial(h)
		}
	}
}
