package sim

import (
	"fmt"

	"github.com/yaricom/goNEAT/v4/neat/genetics"
	"github.com/yaricom/goNEAT/v4/neat/network"
)

type linkKey struct {
	In, Out int
	Rec     bool
}

// InnovLedger records, over the whole life of a population, what every innovation number and node id denoted.
type InnovLedger struct {
	link     map[int64]linkKey
	role     map[int]int
	MaxInnov int64
	MaxNode  int
}

func NewInnovLedger() *InnovLedger {
	return &InnovLedger{link: map[int64]linkKey{}, role: map[int]int{}}
}

// AddGenome records every gene and node; it returns a violation (invariant, detail) when a number or id is found to
// denote two different things.
func (l *InnovLedger) AddGenome(g *genetics.Genome, where string) (string, string) {
	for _, n := range g.Nodes {
		if r, ok := l.role[n.Id]; ok {
			if r != int(n.NeuronType) {
				return "node-id-two-roles", fmt.Sprintf("%s: node id %d denotes role %s here and role %s elsewhere in the population's history", where, n.Id, network.NeuronTypeName(n.NeuronType), network.NeuronTypeName(network.NodeNeuronType(r)))
			}
		} else {
			l.role[n.Id] = int(n.NeuronType)
		}
		if n.Id > l.MaxNode {
			l.MaxNode = n.Id
		}
	}
	for _, gn := range g.Genes {
		if gn.Link == nil || gn.Link.InNode == nil || gn.Link.OutNode == nil {
			continue
		}
		k := linkKey{gn.Link.InNode.Id, gn.Link.OutNode.Id, gn.Link.IsRecurrent}
		if prev, ok := l.link[gn.InnovationNum]; ok {
			if prev != k {
				return "innovation-two-links", fmt.Sprintf("%s: innovation number %d denotes %d->%d (recurrent %t) here and %d->%d (recurrent %t) elsewhere in the population's history",
					where, gn.InnovationNum, k.In, k.Out, k.Rec, prev.In, prev.Out, prev.Rec)
			}
		} else {
			l.link[gn.InnovationNum] = k
		}
		if gn.InnovationNum > l.MaxInnov {
			l.MaxInnov = gn.InnovationNum
		}
	}
	return "", ""
}

// Knows tells whether the innovation number has been seen.
func (l *InnovLedger) Knows(innov int64) bool {
	_, ok := l.link[innov]
	return ok
}

func (l *InnovLedger) KnowsNode(id int) bool {
	_, ok := l.role[id]
	return ok
}

// AddPopulation records all organisms.
func (l *InnovLedger) AddPopulation(pop *genetics.Population, where string) (string, string) {
	for i, o := range pop.Organisms {
		if inv, d := l.AddGenome(o.Genotype, fmt.Sprintf("%s organism %d", where, i)); inv != "" {
			return inv, d
		}
	}
	return "", ""
}

// CheckPopulationWellFormed applies the C01 predicate to every organism's genome.
func CheckPopulationWellFormed(pop *genetics.Population, ancestors []IONode, where string) (string, string) {
	for i, o := range pop.Organisms {
		if bad := WellFormed(o.Genotype, ancestors, true); len(bad) > 0 {
			return "ill-formed:" + clauseName(bad[0]), fmt.Sprintf("%s: organism %d (%s): %s", where, i, Canon(o.Genotype).Pretty(), bad[0])
		}
	}
	return "", ""
}

// clauseName maps a well-formedness message to a short stable clause name (the invariant signature).
func clauseName(msg string) string {
	switch {
	case contains(msg, "ascending innovation"):
		return "gene-order"
	case contains(msg, "join the same node pair"):
		return "duplicate-link"
	case contains(msg, "node ids not strictly"):
		return "node-order"
	case contains(msg, "NodeWithId"):
		return "node-lookup"
	case contains(msg, "not one of the genome's own nodes"):
		return "foreign-endpoint"
	case contains(msg, "trait that is not one"):
		return "foreign-trait"
	case contains(msg, "ends in sensor"):
		return "sensor-target"
	case contains(msg, "ancestor node"):
		return "io-node-lost"
	case contains(msg, "cannot be expressed"):
		return "not-expressible"
	case contains(msg, "nil"):
		return "nil-part"
	}
	return "other"
}

func contains(s, sub string) bool {
	return len(sub) <= len(s) && indexOf(s, sub) >= 0
}

func indexOf(s, sub string) int {
	for i := 0; i+len(sub) <= len(s); i++ {
		if s[i:i+len(sub)] == sub {
			return i
		}
	}
	return -1
}
