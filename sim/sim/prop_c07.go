package sim

import (
	"fmt"
	"math"

	"github.com/yaricom/goNEAT/v4/neat"
	"github.com/yaricom/goNEAT/v4/neat/genetics"
)

// C07 — compatibility distance equals the NEAT formula under both methods.
//
// No schedule, clock or fault exists in this statement. What the simulator contributes is the state generator (pairs
// of genomes reached by seeded evolution, ancestors against descendants, interspecies pairs) and a reference model
// evaluated on every sampled pair while the run proceeds. See DESIGN.md section 0 for the caveat.

func init() {
	Register(&Scenario{
		Prop: "C07", Run: scenarioC07, QuickRuns: 18000, ThoroughRuns: 2000000, Level: "exploration",
		Rule:       "one run = a seeded evolving world; after every generation tape-chosen pairs are compared: organisms of the population with each other, with archived ancestors of earlier generations (long excess tails), with their duplicate, and with harness-cut variants (a prefix, the genes at even / odd positions: empty overlap and interleaved disjoint genes); each pair is evaluated in both argument orders under both methods and several non-negative coefficient sets against the set-based reference E*ce + D*cd + W*cm. A case is one (pair, coefficient set); non-trivial when the pair has at least one excess or disjoint gene; distinct by the pair's alignment pattern hash",
		RealParts:  []string{"Genome.compatibility with its linear and fast methods", "the epochs that produce the genomes"},
		StubParts:  []string{"fitness assignment"},
		Assumes:    []string{"gene lists are sorted by innovation number (C01)", "relative tolerance 1e-9 for the order of floating-point summation"},
		ProbeNames: []string{"probe.pair.no_matching_gene", "probe.pair.interleaved_disjoint", "probe.pair.prefix", "probe.pair.long_excess_tail", "probe.pair.ancestor", "probe.pair.duplicate", "probe.pair.same_genome_id", "probe.pair.innovations_beyond_2^33", "probe.pair.innovations_2^32_apart", "probe.pair.both_have_excess_or_disjoint"},
	})
}

// RefCompat is the reference: excess and disjoint genes by set arithmetic on innovation numbers, mean mutation
// difference over matching genes (0 when none match).
func RefCompat(a, b *GenomeRec, cd, ce, cm float64) (val float64, excess, disjoint, matching int) {
	maxA, maxB := int64(math.MinInt64), int64(math.MinInt64)
	ia, ib := map[int64]GeneRec{}, map[int64]GeneRec{}
	for _, g := range a.Genes {
		ia[g.Innov] = g
		if g.Innov > maxA {
			maxA = g.Innov
		}
	}
	for _, g := range b.Genes {
		ib[g.Innov] = g
		if g.Innov > maxB {
			maxB = g.Innov
		}
	}
	sum := 0.0
	for _, g := range a.Genes {
		if o, ok := ib[g.Innov]; ok {
			matching++
			sum += math.Abs(f64(g.Mut) - f64(o.Mut))
		} else if g.Innov > maxB {
			excess++
		} else {
			disjoint++
		}
	}
	for _, g := range b.Genes {
		if _, ok := ia[g.Innov]; !ok {
			if g.Innov > maxA {
				excess++
			} else {
				disjoint++
			}
		}
	}
	w := 0.0
	if matching > 0 {
		w = sum / float64(matching)
	}
	return ce*float64(excess) + cd*float64(disjoint) + cm*w, excess, disjoint, matching
}

func closeRel(x, y float64) bool {
	if math.IsNaN(x) || math.IsNaN(y) {
		return false
	}
	d := math.Abs(x - y)
	return d <= 1e-9*math.Max(1, math.Max(math.Abs(x), math.Abs(y)))
}

// subsetGenome is a harness-cut variant: the genes selected by keep, on a clone.
func subsetGenome(g *genetics.Genome, keep func(i int) bool) *genetics.Genome {
	cl := CloneGenome(g, g.Id)
	var genes []*genetics.Gene
	for i, gn := range cl.Genes {
		if keep(i) {
			genes = append(genes, gn)
		}
	}
	cl.Genes = genes
	return cl
}

// shiftInnovations returns a clone whose genes with innovation number >= pivot carry numbers moved up by delta
// (order and, when applied to both genomes of a pair, the matching relation are preserved).
func shiftInnovations(g *genetics.Genome, pivot, delta int64) *genetics.Genome {
	cl := CloneGenome(g, g.Id)
	for _, gn := range cl.Genes {
		if gn.InnovationNum >= pivot {
			gn.InnovationNum += delta
		}
	}
	return cl
}

func checkCompatPair(c *RunCtx, a, b *genetics.Genome, opts []*neat.Options, kind string) {
	t := c.T
	// variants of the pair that the formula must be blind to or must follow exactly
	switch t.Pick("pair.variant", 6, 2, 1, 1) {
	case 1:
		// two different genomes may carry the same id (ids are per-species offspring counters and recur across species
		// and generations; a baby is compared with representatives of the previous generation)
		if a != b {
			b = CloneGenome(b, a.Id)
			c.Count("probe.pair.same_genome_id")
		}
	case 2:
		// innovation numbers are 64-bit: both genomes keep their alignment, the tail moves beyond 2^33
		if len(a.Genes) > 0 {
			pivot := a.Genes[t.Draw("far.pivot", len(a.Genes))].InnovationNum
			a, b = shiftInnovations(a, pivot, 1<<33), shiftInnovations(b, pivot, 1<<33)
			c.Count("probe.pair.innovations_beyond_2^33")
		}
	case 3:
		// only b's tail moves, by exactly 2^32: genes that matched no longer match
		if len(b.Genes) > 0 {
			pivot := b.Genes[t.Draw("far.pivot.b", len(b.Genes))].InnovationNum
			b = shiftInnovations(b, pivot, 1<<32)
			c.Count("probe.pair.innovations_2^32_apart")
		}
	}
	ra, rb := Canon(a), Canon(b)
	for _, o := range opts {
		ref, ex, dj, match := RefCompat(ra, rb, o.DisjointCoeff, o.ExcessCoeff, o.MutdiffCoeff)
		vals := map[string]float64{}
		for _, m := range []neat.GenomeCompatibilityMethod{neat.GenomeCompatibilityMethodLinear, neat.GenomeCompatibilityMethodFast} {
			oo := *o
			oo.GenCompatMethod = m
			var ab, ba float64
			c.Lib("compatibility", func() {
				ab = genetics.VerifCompatibility(a, b, &oo)
				ba = genetics.VerifCompatibility(b, a, &oo)
			})
			ctx := func() string {
				return fmt.Sprintf("method %s, coefficients (disjoint %.6g, excess %.6g, mutdiff %.6g), pair kind %s: %d excess, %d disjoint, %d matching\n a: %s\n b: %s",
					m, o.DisjointCoeff, o.ExcessCoeff, o.MutdiffCoeff, kind, ex, dj, match, ra.Pretty(), rb.Pretty())
			}
			if math.IsNaN(ab) || math.IsNaN(ba) {
				c.Fail("nan", "compatibility is NaN (%v / %v), the formula gives %v\n%s", ab, ba, ref, ctx())
			}
			if ab < 0 || ba < 0 {
				c.Fail("negative", "compatibility is negative (%v / %v)\n%s", ab, ba, ctx())
			}
			if !closeRel(ab, ref) {
				c.Fail("formula", "compatibility(a,b) = %v, the formula gives %v\n%s", ab, ref, ctx())
			}
			if !closeRel(ba, ref) {
				c.Fail("formula", "compatibility(b,a) = %v, the formula gives %v\n%s", ba, ref, ctx())
			}
			if !closeRel(ab, ba) {
				c.Fail("asymmetric", "compatibility(a,b) = %v but compatibility(b,a) = %v\n%s", ab, ba, ctx())
			}
			vals[string(m)] = ab
		}
		if !closeRel(vals["linear"], vals["fast"]) {
			c.Fail("methods-disagree", "linear gives %v, fast gives %v", vals["linear"], vals["fast"])
		}
		pattern := uint64(len(ra.Genes))
		ib := indexGenes(rb)
		for _, g := range ra.Genes {
			_, both := ib[g.Innov]
			pattern = Mix(pattern, uint64(g.Innov), b2u(both))
		}
		pattern = Mix(pattern, uint64(len(rb.Genes)), math.Float64bits(o.DisjointCoeff), math.Float64bits(o.ExcessCoeff))
		c.State(pattern)
		c.Steps++
		if ex+dj > 0 {
			c.Nontrivial(pattern)
		}
		if match == 0 && len(ra.Genes) > 0 && len(rb.Genes) > 0 {
			c.Count("probe.pair.no_matching_gene")
		}
		if ex >= 4 {
			c.Count("probe.pair.long_excess_tail")
		}
		if dj >= 2 && match >= 1 {
			c.Count("probe.pair.interleaved_disjoint")
		}
	}
	c.Count("probe.pair." + kind)
}

func scenarioC07(c *RunCtx) {
	t := c.T
	maxPop, maxEpochs, pairsPer := 20, 10, 6
	if c.Thorough {
		maxPop, maxEpochs, pairsPer = 50, 40, 12
	}
	spec := WorldSpec{
		Prof:         OptProfile{MinPop: 3, MaxPop: maxPop, Parallel: 0, Structural: 1, ManySpecies: t.Chance("manySpecies", 1, 2), AllowStolen: true},
		Genome:       GenomeSpec{AllowDisabled: true, MaxHidden: 3},
		AllowShipped: true,
		AllowRandom:  true,
	}
	var w *World
	c.LibSoft("construct", func() { w = NewWorld(t, spec) })
	if w.ConstructErr != nil {
		c.Skip("constructor-error")
	}
	if w.GenelessAtStart > 0 {
		c.Skip("precondition:geneless-random-genome")
	}
	c.Sample = w.Describe()
	c.Op("world: %s", w.Describe())
	// coefficient sets: the world's own, plus drawn non-negative sets incl. zeros
	opts := []*neat.Options{w.Opts}
	for i := 0; i < 2; i++ {
		o := *w.Opts
		switch t.Pick("coeffset", 2, 1, 1, 1) {
		case 0:
			o.DisjointCoeff, o.ExcessCoeff, o.MutdiffCoeff = t.FloatRange("cd", 0, 5), t.FloatRange("ce", 0, 5), t.FloatRange("cm", 0, 5)
		case 1:
			o.DisjointCoeff, o.ExcessCoeff, o.MutdiffCoeff = 1, 0, 0
		case 2:
			o.DisjointCoeff, o.ExcessCoeff, o.MutdiffCoeff = 0, 1, 0
		case 3:
			o.DisjointCoeff, o.ExcessCoeff, o.MutdiffCoeff = 0, 0, 0
		}
		opts = append(opts, &o)
	}
	var archive []*genetics.Genome
	epochs := t.Range("epochs", 0, maxEpochs)
	for e := 0; e <= epochs; e++ {
		n := len(w.Pop.Organisms)
		for k := 0; k < pairsPer; k++ {
			a := w.Pop.Organisms[t.Draw("pair.a", n)].Genotype
			if len(a.Genes) == 0 {
				continue
			}
			switch t.Pick("pair.kind", 4, 2, 1, 1, 1, 1, 1) {
			case 0:
				b := w.Pop.Organisms[t.Draw("pair.b", n)].Genotype
				checkCompatPair(c, a, b, opts, "both_have_excess_or_disjoint")
			case 1:
				if len(archive) > 0 {
					b := archive[t.Draw("pair.anc", len(archive))]
					checkCompatPair(c, a, b, opts, "ancestor")
				}
			case 2:
				var d *genetics.Genome
				var err error
				c.LibSoft("duplicate", func() { d, err = genetics.VerifDuplicate(a, 7777) })
				if err == nil {
					for _, o := range opts {
						for _, m := range []neat.GenomeCompatibilityMethod{neat.GenomeCompatibilityMethodLinear, neat.GenomeCompatibilityMethodFast} {
							oo := *o
							oo.GenCompatMethod = m
							var self, dup float64
							c.Lib("compatibility", func() {
								self = genetics.VerifCompatibility(a, a, &oo)
								dup = genetics.VerifCompatibility(a, d, &oo)
							})
							if self != 0 {
								c.Fail("self-not-zero", "method %s: compatibility of a genome with itself is %v\n%s", m, self, Canon(a).Pretty())
							}
							if dup != 0 {
								c.Fail("duplicate-not-zero", "method %s: compatibility of a genome with its duplicate is %v\n%s", m, dup, Canon(a).Pretty())
							}
						}
					}
					c.Count("probe.pair.duplicate")
				}
			case 3:
				cut := t.Draw("prefix.len", len(a.Genes)+1)
				b := subsetGenome(a, func(i int) bool { return i < cut })
				checkCompatPair(c, a, b, opts, "prefix")
			case 4:
				// even positions against odd positions: no gene in common, interleaved
				x := subsetGenome(a, func(i int) bool { return i%2 == 0 })
				y := subsetGenome(a, func(i int) bool { return i%2 == 1 })
				checkCompatPair(c, x, y, opts, "no_matching_gene")
			case 5:
				// a drops a tape-chosen subset, b drops another: interleaved disjoint genes with matches in between
				ma, mb := t.Draw("mask.a", 1<<12), t.Draw("mask.b", 1<<12)
				x := subsetGenome(a, func(i int) bool { return ma>>(uint(i)%12)&1 == 0 })
				bsrc := w.Pop.Organisms[t.Draw("pair.b2", n)].Genotype
				y := subsetGenome(bsrc, func(i int) bool { return mb>>(uint(i)%12)&1 == 0 })
				checkCompatPair(c, x, y, opts, "interleaved_disjoint")
			case 6:
				// against an empty gene list
				y := subsetGenome(a, func(i int) bool { return false })
				checkCompatPair(c, a, y, opts, "prefix")
			}
		}
		if e == epochs {
			break
		}
		// archive a few ancestors (harness copies) before they are replaced
		for k := 0; k < 2; k++ {
			archive = append(archive, CloneGenome(w.Pop.Organisms[t.Draw("archive", n)].Genotype, 8000+len(archive)))
		}
		snap := StepEpoch(c, w, false, nil, c.LibSoft)
		if snap.Err != nil {
			c.Counters["abandoned.epoch-error"]++
			break
		}
	}
}
