package sim

import (
	"fmt"
	"math"
)

// C04 — crossover children inherit genes only as NEAT's alignment rules allow.

func init() {
	Register(&Scenario{
		Prop: "C04", Run: scenarioC04, QuickRuns: 22500, ThoroughRuns: 3000000, Level: "exploration",
		Rule:       "one run = a seeded world evolved for a few generations (so that parents have diverged innovation lists, disabled and recurrent genes, the same link under different numbers) from which harness-made copies of tape-chosen organisms (including interspecies pairs and an organism with itself) are crossed by all three methods under tape-chosen fitness orderings incl. ties; every child is compared with the alignment rules computed by set arithmetic on innovation numbers; children re-enter the parent pool. A case is one crossover; non-trivial when the parents differ in at least one innovation number or one of them carries a disabled gene; distinct by (method, alignment pattern hash, fitness ordering)",
		RealParts:  []string{"mateMultipoint, mateMultipointAvg, mateSinglePoint and the gene/node/trait copy constructors they use", "the epochs that produce the parents", "the crossover coin flips (math/rand seeded from the tape per call)"},
		StubParts:  []string{"fitness values of the parents (drawn, with ties)", "fitness assignment during the preparatory epochs"},
		Assumes:    []string{"parents have a common ancestry (consistent innovation numbers, equal trait counts) - random-start populations are excluded as the property says", "on a full tie (equal fitness, equal gene counts) either parent may supply the exclusive genes, but only one"},
		ProbeNames: []string{"probe.exclusive_disabled_gene", "probe.both_have_exclusive_genes", "probe.fitness_tie", "probe.full_tie", "probe.excess_on_less_fit", "probe.same_link_two_numbers", "probe.self_mating", "probe.shared_gene_disabled_in_one", "probe.parents_same_genome_id", "probe.op.planted_link"},
	})
}

type geneIdx map[int64]GeneRec

func indexGenes(r *GenomeRec) geneIdx {
	m := geneIdx{}
	for _, g := range r.Genes {
		m[g.Innov] = g
	}
	return m
}

func f64(b uint64) float64 { return math.Float64frombits(b) }

// checkCrossover is the C04 oracle for one mating result.
func checkCrossover(c *RunCtx, res *OpResult) {
	if res.Err != nil {
		c.Fail("crossover-error", "%s returned an error for parents with equal trait counts: %v", OpNames[res.Op], res.Err)
	}
	p1, p2 := res.BeforeA, res.BeforeB
	child := Canon(res.Child)
	ctx := func() string {
		return fmt.Sprintf("%s (libseed %d, fitness %.6g vs %.6g)\n p1: %s\n p2: %s\n child: %s", OpNames[res.Op], res.LibSeed, res.FitA, res.FitB, p1.Pretty(), p2.Pretty(), child.Pretty())
	}
	// parents untouched
	if d1, d2 := p1.Dump(true), res.AfterA.Dump(true); d1 != d2 {
		c.Fail("parent-modified", "first parent changed: %s\n%s", FirstDiff(d1, d2), ctx())
	}
	if d1, d2 := p2.Dump(true), res.AfterB.Dump(true); d1 != d2 {
		c.Fail("parent-modified", "second parent changed: %s\n%s", FirstDiff(d1, d2), ctx())
	}
	// ... and out of the child's reach: a child that shares a trait, node or link object (or a parameter array) with a
	// parent lets the mutation that follows every mating in reproduction rewrite the parent
	if res.ParentA != nil {
		if d := sharedState(res.ParentA, res.Child); d != "" {
			c.Fail("child-shares-parent-state", "the child shares mutable state with its first parent: %s\n%s", d, ctx())
		}
	}
	if res.ParentB != nil {
		if d := sharedState(res.ParentB, res.Child); d != "" {
			c.Fail("child-shares-parent-state", "the child shares mutable state with its second parent: %s\n%s", d, ctx())
		}
	}
	i1, i2 := indexGenes(p1), indexGenes(p2)
	seen := map[int64]bool{}
	fromP1Only, fromP2Only := 0, 0
	for _, g := range child.Genes {
		if seen[g.Innov] {
			c.Fail("gene-twice", "child carries innovation #%d twice\n%s", g.Innov, ctx())
		}
		seen[g.Innov] = true
		a, inA := i1[g.Innov]
		b, inB := i2[g.Innov]
		if !inA && !inB {
			c.Fail("gene-from-nowhere", "child gene #%d occurs in neither parent\n%s", g.Innov, ctx())
		}
		src := a
		if !inA {
			src = b
		}
		if g.In != src.In || g.Out != src.Out || g.Rec != src.Rec {
			c.Fail("gene-endpoints", "child gene #%d joins %d->%d (recurrent %t), the parent gene joins %d->%d (recurrent %t)\n%s", g.Innov, g.In, g.Out, g.Rec, src.In, src.Out, src.Rec, ctx())
		}
		switch {
		case inA && inB:
			mean := math.Float64bits((f64(a.W) + f64(b.W)) / 2.0)
			okW := false
			switch res.Op {
			case OpMateMultipoint:
				okW = g.W == a.W || g.W == b.W
			case OpMateMultipointAvg:
				okW = g.W == mean
			case OpMateSinglePoint:
				okW = g.W == a.W || g.W == b.W || g.W == mean
			}
			if !okW {
				c.Fail("weight", "child gene #%d has weight %v; parents have %v and %v (mean %v)\n%s", g.Innov, f64(g.W), f64(a.W), f64(b.W), f64(mean), ctx())
			}
			if a.En && b.En && !g.En {
				c.Fail("enabled-flag", "child gene #%d is disabled although it is enabled in both parents\n%s", g.Innov, ctx())
			}
			if a.En != b.En {
				c.Count("probe.shared_gene_disabled_in_one")
			}
		case inA:
			fromP1Only++
			if g.W != a.W {
				c.Fail("weight", "child gene #%d (only in the first parent) has weight %v, the parent %v\n%s", g.Innov, f64(g.W), f64(a.W), ctx())
			}
			if g.En != a.En {
				c.Fail("enabled-flag", "child gene #%d occurs only in the first parent, where enabled=%t, but enabled=%t in the child\n%s", g.Innov, a.En, g.En, ctx())
			}
			if !a.En {
				c.Count("probe.exclusive_disabled_gene")
			}
		default:
			fromP2Only++
			if g.W != b.W {
				c.Fail("weight", "child gene #%d (only in the second parent) has weight %v, the parent %v\n%s", g.Innov, f64(g.W), f64(b.W), ctx())
			}
			if g.En != b.En {
				c.Fail("enabled-flag", "child gene #%d occurs only in the second parent, where enabled=%t, but enabled=%t in the child\n%s", g.Innov, b.En, g.En, ctx())
			}
			if !b.En {
				c.Count("probe.exclusive_disabled_gene")
			}
		}
	}
	excl1, excl2 := 0, 0
	for k := range i1 {
		if _, ok := i2[k]; !ok {
			excl1++
		}
	}
	for k := range i2 {
		if _, ok := i1[k]; !ok {
			excl2++
		}
	}
	if res.Op != OpMateSinglePoint {
		// every shared gene is inherited
		for _, g := range p1.Genes {
			if _, both := i2[g.Innov]; both && !seen[g.Innov] {
				c.Fail("shared-gene-lost", "gene #%d is present in both parents but not in the child\n%s", g.Innov, ctx())
			}
		}
		// exclusive genes only from the fitter parent (fewer genes on a fitness tie; on a full tie either, but only one)
		switch {
		case res.FitA > res.FitB, res.FitA == res.FitB && len(p1.Genes) < len(p2.Genes):
			if fromP2Only > 0 {
				c.Fail("exclusive-from-worse", "child took %d gene(s) present only in the second parent although the first is the fitter one (%.6g vs %.6g, %d vs %d genes)\n%s", fromP2Only, res.FitA, res.FitB, len(p1.Genes), len(p2.Genes), ctx())
			}
		case res.FitB > res.FitA, res.FitA == res.FitB && len(p2.Genes) < len(p1.Genes):
			if fromP1Only > 0 {
				c.Fail("exclusive-from-worse", "child took %d gene(s) present only in the first parent although the second is the fitter one (%.6g vs %.6g, %d vs %d genes)\n%s", fromP1Only, res.FitA, res.FitB, len(p1.Genes), len(p2.Genes), ctx())
			}
		default:
			c.Count("probe.full_tie")
			if fromP1Only > 0 && fromP2Only > 0 {
				c.Fail("exclusive-from-both", "full tie: child took exclusive genes from both parents (%d and %d)\n%s", fromP1Only, fromP2Only, ctx())
			}
		}
		if res.FitA == res.FitB {
			c.Count("probe.fitness_tie")
		}
		if excl1 > 0 && excl2 > 0 {
			c.Count("probe.both_have_exclusive_genes")
		}
		if (res.FitA > res.FitB && excl2 > 0 && p2.Genes[len(p2.Genes)-1].Innov > p1.Genes[len(p1.Genes)-1].Innov) ||
			(res.FitB > res.FitA && excl1 > 0 && p1.Genes[len(p1.Genes)-1].Innov > p2.Genes[len(p2.Genes)-1].Innov) {
			c.Count("probe.excess_on_less_fit")
		}
	}
	// same link under two numbers across the parents
	lk1 := map[linkKey]int64{}
	for _, g := range p1.Genes {
		lk1[linkKey{g.In, g.Out, g.Rec}] = g.Innov
	}
	for _, g := range p2.Genes {
		if n, ok := lk1[linkKey{g.In, g.Out, g.Rec}]; ok && n != g.Innov {
			c.Count("probe.same_link_two_numbers")
			break
		}
	}
	// nodes: all input/bias/output nodes plus exactly the endpoints of the child's genes
	want := map[int]bool{}
	attr := map[int]NodeRec{}
	for _, p := range []*GenomeRec{p1, p2} {
		for _, n := range p.Nodes {
			if n.Neuron != 0 {
				want[n.Id] = true
			}
			if _, ok := attr[n.Id]; !ok {
				attr[n.Id] = n
			}
		}
	}
	for _, g := range child.Genes {
		want[g.In] = true
		want[g.Out] = true
	}
	have := map[int]bool{}
	for _, n := range child.Nodes {
		if have[n.Id] {
			c.Fail("node-twice", "child has node %d twice\n%s", n.Id, ctx())
		}
		have[n.Id] = true
		if !want[n.Id] {
			c.Fail("extra-node", "child has node %d, which is neither an input/bias/output node nor touched by one of its genes\n%s", n.Id, ctx())
		}
		pa, ok := attr[n.Id]
		if !ok {
			c.Fail("node-from-nowhere", "child node %d occurs in neither parent\n%s", n.Id, ctx())
		}
		if pa.Neuron != n.Neuron || pa.Act != n.Act {
			c.Fail("node-attributes", "child node %d has role %d / activation %d, the parents' node has role %d / activation %d\n%s", n.Id, n.Neuron, n.Act, pa.Neuron, pa.Act, ctx())
		}
	}
	for id := range want {
		if !have[id] {
			c.Fail("missing-node", "child lacks node %d (an input/bias/output node or an endpoint of one of its genes)\n%s", id, ctx())
		}
	}
	// traits
	if len(child.Traits) != len(p1.Traits) {
		c.Fail("trait-count", "child has %d traits, parents have %d\n%s", len(child.Traits), len(p1.Traits), ctx())
	}
	for i, tr := range child.Traits {
		a, b := p1.Traits[i], p2.Traits[i]
		if len(tr.Params) != len(a.Params) {
			c.Fail("trait-params", "child trait %d has %d parameters, parents %d", i, len(tr.Params), len(a.Params))
		}
		for k := range tr.Params {
			if want := math.Float64bits((f64(a.Params[k]) + f64(b.Params[k])) / 2.0); tr.Params[k] != want {
				c.Fail("trait-params", "child trait %d parameter %d is %v, the mean of the parents' %v and %v is %v\n%s", i, k, f64(tr.Params[k]), f64(a.Params[k]), f64(b.Params[k]), f64(want), ctx())
			}
		}
	}
	// distinct / non-trivial accounting
	pattern := uint64(res.Op)
	for _, g := range p1.Genes {
		_, both := i2[g.Innov]
		pattern = Mix(pattern, uint64(g.Innov), b2u(both), b2u(g.En))
	}
	for _, g := range p2.Genes {
		_, both := i1[g.Innov]
		pattern = Mix(pattern, uint64(g.Innov), b2u(both), b2u(g.En), 7)
	}
	ord := uint64(0)
	if res.FitA > res.FitB {
		ord = 1
	} else if res.FitA < res.FitB {
		ord = 2
	}
	h := Mix(pattern, ord)
	c.State(h)
	dis := false
	for _, g := range append(append([]GeneRec{}, p1.Genes...), p2.Genes...) {
		if !g.En {
			dis = true
		}
	}
	if excl1+excl2 > 0 || dis {
		c.Nontrivial(h)
	}
}

func b2u(b bool) uint64 {
	if b {
		return 1
	}
	return 0
}

func scenarioC04(c *RunCtx) {
	t := c.T
	maxPop, maxEpochs, maxOps := 20, 8, 40
	if c.Thorough {
		maxPop, maxEpochs, maxOps = 40, 25, 150
	}
	spec := WorldSpec{
		Prof:         OptProfile{MinPop: 4, MaxPop: maxPop, SmallDropOff: false, Parallel: 0, ManySpecies: t.Chance("manySpecies", 1, 2), Structural: 1},
		Genome:       GenomeSpec{AllowDisabled: true, MaxHidden: 3},
		AllowShipped: true,
	}
	var w *World
	c.LibSoft("construct", func() { w = NewWorld(t, spec) })
	if w.ConstructErr != nil {
		c.Skip("constructor-error")
	}
	// toggling and re-enabling make one-sided disabled genes likely
	if w.Opts.MutateToggleEnableProb < 0.2 {
		w.Opts.MutateToggleEnableProb = 0.2 + 0.5*t.Float("toggleBoost")
	}
	c.Sample = w.Describe()
	c.Op("world: %s", w.Describe())
	env := NewOpsEnvFromWorld(c, w, t.Range("epochs", 0, maxEpochs), t.Range("pool", 2, 6))
	mates := []int{OpMateMultipoint, OpMateMultipointAvg, OpMateSinglePoint}
	prep := []int{OpAddNode, OpAddLink, OpToggleEnable, OpReEnable, OpLinkWeights, OpRandomTrait}
	n := t.Range("ops", 1, maxOps)
	for i := 0; i < n; i++ {
		if t.Chance("plant", 1, 6) {
			if d := env.PlantLink(t.Draw("plant.a", len(env.Pool))); d != "" {
				c.Op("%s", d)
			}
			continue
		}
		if t.Chance("prep", 1, 4) {
			// diverge an operand further (not judged here: C05's business)
			op, a, _ := env.DrawOp(prep)
			r := env.Apply(op, a, 0, c.LibSoft)
			c.Op("%s", r.Describe())
			continue
		}
		op, a, b := env.DrawOp(mates)
		if a == b {
			c.Count("probe.self_mating")
		}
		res := env.Apply(op, a, b, c.Lib)
		c.Steps++
		c.Op("%s", res.Describe())
		checkCrossover(c, res)
		if len(res.Child.Genes) > 0 {
			env.Adopt(res.Child, env.DrawFitness(), 8)
		}
	}
}
