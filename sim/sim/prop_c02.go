package sim

import (
	"fmt"
	"math"

	"github.com/yaricom/goNEAT/v4/neat/genetics"
)

// C02 — an epoch conserves population size and keeps species a partition.

func init() {
	Register(&Scenario{
		Prop: "C02", Run: scenarioC02, QuickRuns: 9600, ThoroughRuns: 240000, Level: "exploration",
		Rule:       "one run = one seeded world (start genome kind, option swarm, fitness landscape, executor, scheduler strategy) turned over for 1..N epochs with the partition/size/age/id oracle after every epoch; a case is an (epoch, population shape) pair, non-trivial when the population had >= 2 species or the apportionment took a rare path (stolen babies, delta coding, species extinction, new species founded)",
		RealParts:  []string{"neat/genetics (population, species, both epoch executors, all operators)", "math/rand seeded from the tape", "real goroutines of the parallel executor, released one at a time by the tape-driven scheduler"},
		StubParts:  []string{"fitness assignment (seeded landscape)", "choice of which reproduction goroutine runs next"},
		Assumes:    []string{"fitness values are finite and non-negative", "PopSize >= 3", "worlds whose constructor already hands out a gene-less genome are skipped (precondition)"},
		ProbeNames: []string{"probe.species>=2", "probe.new_species", "probe.species_extinct", "probe.delta_coding", "probe.stolen", "probe.parallel_epoch", "probe.checkpoint_restore"},
	})
}

// partitionOracle holds the cross-epoch ledger for C02.
type partitionOracle struct {
	seenSpeciesIds map[int]*genetics.Species // every id ever seen -> the object that carried it
	bornAtStart    map[*genetics.Species]bool
	turnovers      int
	maxSpeciesId   int
}

func newPartitionOracle(pop *genetics.Population) *partitionOracle {
	o := &partitionOracle{seenSpeciesIds: map[int]*genetics.Species{}, bornAtStart: map[*genetics.Species]bool{}}
	for _, sp := range pop.Species {
		o.seenSpeciesIds[sp.Id] = sp
		o.bornAtStart[sp] = true
		if sp.Id > o.maxSpeciesId {
			o.maxSpeciesId = sp.Id
		}
	}
	return o
}

// checkStatic checks the partition clauses that hold for any population (also right after construction).
func checkPartition(pop *genetics.Population, popSize int) (string, string) {
	if len(pop.Organisms) != popSize {
		return "size", fmt.Sprintf("population has %d organisms, configured size is %d", len(pop.Organisms), popSize)
	}
	inSpecies := map[*genetics.Organism]int{}
	ids := map[int]bool{}
	for _, sp := range pop.Species {
		if len(sp.Organisms) == 0 {
			return "empty-species", fmt.Sprintf("species %d is empty", sp.Id)
		}
		if ids[sp.Id] {
			return "species-id-dup", fmt.Sprintf("two species carry id %d", sp.Id)
		}
		ids[sp.Id] = true
		for _, o := range sp.Organisms {
			inSpecies[o]++
			if o.Species != sp {
				return "backpointer", fmt.Sprintf("organism (genome %d) is listed by species %d but points to another species", o.Genotype.Id, sp.Id)
			}
		}
	}
	gids := map[int]bool{}
	for _, o := range pop.Organisms {
		if inSpecies[o] != 1 {
			return "membership", fmt.Sprintf("organism (genome %d) is listed %d times by the species", o.Genotype.Id, inSpecies[o])
		}
		if gids[o.Genotype.Id] {
			return "genome-id-dup", fmt.Sprintf("two organisms carry genome id %d", o.Genotype.Id)
		}
		gids[o.Genotype.Id] = true
	}
	if len(inSpecies) != len(pop.Organisms) {
		return "membership", fmt.Sprintf("species list %d distinct organisms, population has %d", len(inSpecies), len(pop.Organisms))
	}
	return "", ""
}

// afterEpoch checks the turnover clauses. Returns (invariant, detail) or "".
func (po *partitionOracle) afterEpoch(pop *genetics.Population, snap *EpochSnap, popSize int) (string, string) {
	if inv, d := checkPartition(pop, popSize); inv != "" {
		return inv, d
	}
	oldOrg := map[*genetics.Organism]bool{}
	oldGen := map[*genetics.Genome]bool{}
	for _, os := range snap.Orgs {
		oldOrg[os.Org] = true
		oldGen[os.Genome] = true
	}
	for _, o := range pop.Organisms {
		if oldOrg[o] {
			return "old-survivor", fmt.Sprintf("organism with genome id %d belonged to the previous generation", o.Genotype.Id)
		}
		if oldGen[o.Genotype] {
			return "old-survivor", fmt.Sprintf("genome object of organism %d belonged to the previous generation", o.Genotype.Id)
		}
	}
	prevAge := map[*genetics.Species]int{}
	for _, ss := range snap.Species {
		prevAge[ss.Sp] = ss.Age
	}
	firstTurnover := po.turnovers == 0
	newMax := po.maxSpeciesId
	for _, sp := range pop.Species {
		if age, existed := prevAge[sp]; existed {
			want := age + 1
			if firstTurnover && po.bornAtStart[sp] {
				want = age
			}
			if sp.Age != want {
				return "age", fmt.Sprintf("surviving species %d has age %d, expected %d (previous %d, first turnover %t)", sp.Id, sp.Age, want, age, firstTurnover)
			}
			if prev := po.seenSpeciesIds[sp.Id]; prev != sp {
				return "species-id-reused", fmt.Sprintf("species id %d now denotes a different species object", sp.Id)
			}
		} else {
			// founded during this turnover
			if sp.Age != 1 {
				return "age", fmt.Sprintf("species %d founded in this turnover has age %d, expected 1", sp.Id, sp.Age)
			}
			if _, used := po.seenSpeciesIds[sp.Id]; used {
				return "species-id-reused", fmt.Sprintf("new species reuses id %d", sp.Id)
			}
			if sp.Id <= po.maxSpeciesId {
				return "species-id-reused", fmt.Sprintf("new species id %d does not exceed the ids seen before (max %d)", sp.Id, po.maxSpeciesId)
			}
			if sp.Id > newMax {
				newMax = sp.Id
			}
			po.seenSpeciesIds[sp.Id] = sp
		}
	}
	po.maxSpeciesId = newMax
	po.turnovers++
	return "", ""
}

func finiteNonNeg(pop *genetics.Population) bool {
	for _, o := range pop.Organisms {
		if math.IsNaN(o.Fitness) || math.IsInf(o.Fitness, 0) || o.Fitness < 0 {
			return false
		}
	}
	return true
}

func scenarioC02(c *RunCtx) {
	t := c.T
	maxPop, maxEpochs := 40, 12
	if c.Thorough {
		maxPop, maxEpochs = 80, 40
	}
	spec := WorldSpec{
		Prof:         OptProfile{MinPop: 3, MaxPop: maxPop, AllowStolen: true, SmallDropOff: t.Chance("smallDropOff", 1, 2), Parallel: 2, ManySpecies: t.Chance("manySpecies", 1, 3), Structural: t.Pick("structural", 2, 1)},
		Genome:       GenomeSpec{AllowDisabled: true, MaxHidden: 3},
		AllowRandom:  true,
		AllowShipped: true,
		AllowRead:    true,
	}
	// finite non-negative fitness at the limits of float64 (one run in sixteen): whole multiples of the smallest
	// subnormal, values next to the largest finite number. Opt-in kinds, not part of the other checks' worlds.
	if t.Chance("extremeFitness", 1, 16) {
		spec.Landscapes = []int{LandSubnormalUnits, LandNearMax}
	}
	var w *World
	var sched *Sched
	c.LibSoft("construct", func() { w = NewWorld(t, spec) })
	if w.ConstructErr != nil {
		c.Skip("constructor-error")
	}
	if w.Land != nil && (w.Land.Kind == LandSubnormalUnits || w.Land.Kind == LandNearMax) {
		c.PanicContext = " (world [start=" + worldKind(w) + "])"
		c.Count("probe.fitness_at_float64_limits")
	}
	if w.GenelessAtStart > 0 {
		c.Skip("precondition:geneless-random-genome")
	}
	if w.IsParallel() {
		sched = NewSched(t)
		genetics.Verif = sched.Hooks()
		defer func() { genetics.Verif = nil }()
	}
	c.Sample = w.Describe()
	c.Op("world: %s", w.Describe())
	if inv, d := checkPartition(w.Pop, w.Opts.PopSize); inv != "" {
		c.Fail("construct:"+inv, "after construction (%s): %s", w.KindName, d)
	}
	po := newPartitionOracle(w.Pop)
	epochs := t.Range("epochs", 1, maxEpochs)
	for e := 0; e < epochs; e++ {
		nSpeciesBefore := len(w.Pop.Species)
		snap := StepEpoch(c, w, false, nil, c.Lib)
		c.Steps++
		c.Op("epoch %d: %d species before, err=%v", e, nSpeciesBefore, snap.Err)
		if snap.Err != nil {
			c.Fail("epoch-error", "world [start=%s] NextEpoch(generation %d) returned error: %v", worldKind(w), e, snap.Err)
		}
		if inv, d := po.afterEpoch(w.Pop, snap, w.Opts.PopSize); inv != "" {
			c.Fail(inv, "world [%s] after epoch %d: %s", worldKind(w), e, d)
		}
		if w.Kind == StartRandomPop {
			// known finding F9: in worlds of unrelated random genomes a crossover can produce a gene-less child, which
			// makes the next turnover fail; keyed on the start kind so that any other epoch error is still reported
			for _, o := range w.Pop.Organisms {
				if len(o.Genotype.Genes) == 0 {
					c.Fail("geneless-genome", "world [start=%s]: epoch %d produced an organism without genes (single-point crossover of unrelated parents whose first genes differ)", w.KindName, e)
				}
			}
		}
		if t.Chance("checkpoint", 1, 8) {
			// save / restore in mid-run: what ReadPopulation restores is a new population (new species objects and ids);
			// it must be a partition of the configured size, and the turnover clauses hold for it from here on
			var cerr error
			c.LibSoft("checkpoint", func() { cerr = w.Checkpoint() })
			if cerr != nil {
				c.Skip("checkpoint-error")
			}
			c.Count("probe.checkpoint_restore")
			c.Op("checkpoint: population written and read back after epoch %d", e)
			if inv, d := checkPartition(w.Pop, w.Opts.PopSize); inv != "" {
				c.Fail("restore:"+inv, "world [%s] after the restore that follows epoch %d: %s", worldKind(w), e, d)
			}
			po = newPartitionOracle(w.Pop)
			continue
		}
		// reach probes and distinct states
		nontrivial := false
		if nSpeciesBefore >= 2 {
			c.Count("probe.species>=2")
			nontrivial = true
		}
		if len(w.Pop.Species) > 0 {
			for _, sp := range w.Pop.Species {
				if sp.Age == 1 && !po.bornAtStart[sp] {
					found := false
					for _, ss := range snap.Species {
						if ss.Sp == sp {
							found = true
						}
					}
					if !found {
						c.Count("probe.new_species")
						nontrivial = true
						break
					}
				}
			}
		}
		alive := map[*genetics.Species]bool{}
		for _, sp := range w.Pop.Species {
			alive[sp] = true
		}
		for _, ss := range snap.Species {
			if !alive[ss.Sp] {
				c.Count("probe.species_extinct")
				nontrivial = true
				break
			}
		}
		if snap.Prepared != nil {
			if snap.Prepared.SinceHighest == 0 && snap.Prepared.Highest == snap.Highest && e > 0 {
				c.Count("probe.delta_coding")
				nontrivial = true
			}
			for _, os := range snap.Orgs {
				if genetics.VerifOrganismView(os.Org).SuperChampOffspring > 0 || w.Opts.BabiesStolen > 0 {
					if w.Opts.BabiesStolen > 0 {
						c.Count("probe.stolen")
						nontrivial = true
					}
					break
				}
			}
		}
		if w.IsParallel() {
			c.Count("probe.parallel_epoch")
		}
		h := Mix(PopShapeHash(w.Pop), uint64(e))
		c.State(h)
		if nontrivial {
			c.Nontrivial(h)
		}
	}
	if sched != nil {
		c.CountN("sched.switches", sched.Switches)
		c.CountN("sched.yields", sched.Yields)
		c.State(sched.TraceHash)
	}
}

// worldKind names the start kind of the world and, for the fitness landscapes at the limits of float64, the landscape
// (known findings are keyed on it).
func worldKind(w *World) string {
	if w.Land != nil && (w.Land.Kind == LandSubnormalUnits || w.Land.Kind == LandNearMax) {
		return w.KindName + " fitness=" + w.Land.Name()
	}
	return w.KindName
}
