package sim

import (
	"fmt"
	"github.com/yaricom/goNEAT/v4/neat/genetics"
)

// C05 — structural and parametric mutations change exactly what they document.

func init() {
	Register(&Scenario{
		Prop: "C05", Run: scenarioC05, QuickRuns: 22500, ThoroughRuns: 3000000, Level: "exploration",
		Rule:       "one run = a seeded world evolved for a few generations, then a history of tape-chosen mutators applied in place to harness-made copies of its organisms (each result is the operand of later calls), against the real population's innovation record or the reference registry (empty, or already holding records made by earlier calls of the same history); every call is judged by the before/after diff of the canonical genome dump together with its boolean result. A case is one mutator call; non-trivial when the call reported success on a genome with a hidden node, a disabled or a recurrent gene; distinct by (mutator, genome shape hash, result)",
		RealParts:  []string{"all ten mutators and mutateAllNonstructural, geneInsert / nodeInsert, the innovation lookup", "the real Population as innovation record in about half of the histories", "math/rand seeded from the tape per call"},
		StubParts:  []string{"reference innovation registry in the other half", "fitness during the preparatory epochs"},
		Assumes:    []string{"what the statement leaves open is not judged: the genome after a failed add-node / add-link / connect-sensors call is only counted (observation counters)"},
		ProbeNames: []string{"probe.addnode.ok", "probe.addnode.recurrent_gene_split", "probe.addlink.ok", "probe.addlink.recurrent", "probe.connect.ok", "probe.toggle.refused_last_enabled", "probe.reenable.changed", "probe.innovation_reused", "probe.record_planted", "probe.addnode.noop", "probe.addlink.noop", "probe.connect.noop"},
	})
}

type geneDiff struct {
	added   []GeneRec
	removed []GeneRec
	changed []int64 // innovation numbers whose record changed in any field
}

func diffGenes(before, after *GenomeRec) geneDiff {
	var d geneDiff
	b := indexGenes(before)
	a := indexGenes(after)
	for _, g := range after.Genes {
		if old, ok := b[g.Innov]; !ok {
			d.added = append(d.added, g)
		} else if old != g {
			d.changed = append(d.changed, g.Innov)
		}
	}
	for _, g := range before.Genes {
		if _, ok := a[g.Innov]; !ok {
			d.removed = append(d.removed, g)
		}
	}
	return d
}

func nodesDump(r *GenomeRec) string {
	s := ""
	for _, n := range r.Nodes {
		s += fmt.Sprintf("%d/%d/%d ", n.Id, n.Neuron, n.Act)
	}
	return s
}

func nodeIds(r *GenomeRec) map[int]NodeRec {
	m := map[int]NodeRec{}
	for _, n := range r.Nodes {
		m[n.Id] = n
	}
	return m
}

func traitsDump(r *GenomeRec) string {
	s := ""
	for _, t := range r.Traits {
		s += fmt.Sprintf("%d:%x ", t.Id, t.Params)
	}
	return s
}

// structureDump is what parametric mutators must never change: node ids/roles, gene endpoints, recurrence, innovation numbers.
func structureDump(r *GenomeRec) string {
	s := ""
	for _, n := range r.Nodes {
		s += fmt.Sprintf("N%d/%d ", n.Id, n.Neuron)
	}
	for _, g := range r.Genes {
		s += fmt.Sprintf("G#%d:%d>%d/%t ", g.Innov, g.In, g.Out, g.Rec)
	}
	return s
}

// checkMutation is the C05 oracle for one in-place mutator call.
func checkMutation(c *RunCtx, res *OpResult) {
	before, after := res.BeforeA, res.AfterA
	ctx := func() string {
		return fmt.Sprintf("%s (libseed %d, registry %s, ok=%t, err=%v)\n before: %s\n after:  %s", OpNames[res.Op], res.LibSeed, res.Registry, res.Ok, res.Err, before.Pretty(), after.Pretty())
	}
	d := diffGenes(before, after)
	switch res.Op {
	case OpAddNode:
		if res.Err != nil {
			c.Fail("mutator-error", "%s", ctx())
		}
		if !res.Ok {
			if before.Dump(false) != after.Dump(false) {
				c.Fail("addnode:noop-changed-genome", "the call reported that it did nothing, yet the genome changed\n%s", ctx())
			}
			c.Count("probe.addnode.noop")
			return
		}
		c.Count("probe.addnode.ok")
		bn, an := nodeIds(before), nodeIds(after)
		var newNodes []NodeRec
		for _, n := range after.Nodes {
			if _, ok := bn[n.Id]; !ok {
				newNodes = append(newNodes, n)
			}
		}
		if len(newNodes) != 1 || len(an) != len(bn)+1 {
			c.Fail("addnode:node-count", "expected exactly one new node, got %d\n%s", len(newNodes), ctx())
		}
		n := newNodes[0]
		if n.Neuron != 0 {
			c.Fail("addnode:node-role", "the new node %d is not a hidden node (role %d)\n%s", n.Id, n.Neuron, ctx())
		}
		for id, old := range bn {
			if an[id] != old {
				c.Fail("addnode:other-node-changed", "node %d changed\n%s", id, ctx())
			}
		}
		if len(d.removed) != 0 {
			c.Fail("addnode:gene-removed", "genes disappeared: %v\n%s", d.removed, ctx())
		}
		if len(d.added) != 2 {
			c.Fail("addnode:new-gene-count", "expected exactly two new genes, got %d\n%s", len(d.added), ctx())
		}
		if len(d.changed) != 1 {
			c.Fail("addnode:changed-gene-count", "expected exactly one existing gene to change (the split one), %d changed: %v\n%s", len(d.changed), d.changed, ctx())
		}
		oldG := indexGenes(before)[d.changed[0]]
		newG := indexGenes(after)[d.changed[0]]
		if !oldG.En || newG.En {
			c.Fail("addnode:split-gene-flag", "the split gene #%d was enabled=%t before and is enabled=%t after; it must go from enabled to disabled\n%s", oldG.Innov, oldG.En, newG.En, ctx())
		}
		newG.En = oldG.En
		if newG != oldG {
			c.Fail("addnode:split-gene-changed", "the split gene #%d changed in more than its enabled flag\n%s", oldG.Innov, ctx())
		}
		var gin, gout *GeneRec
		for i := range d.added {
			g := &d.added[i]
			if g.Out == n.Id && g.In == oldG.In {
				gin = g
			}
			if g.In == n.Id && g.Out == oldG.Out {
				gout = g
			}
		}
		if gin == nil || gout == nil || gin == gout {
			c.Fail("addnode:new-gene-endpoints", "the two new genes must be %d->%d and %d->%d, got %v\n%s", oldG.In, n.Id, n.Id, oldG.Out, d.added, ctx())
		}
		if !gin.En || !gout.En {
			c.Fail("addnode:new-gene-disabled", "a new gene is disabled\n%s", ctx())
		}
		if f64(gin.W) != 1.0 {
			c.Fail("addnode:in-weight", "the gene into the new node has weight %v, expected 1\n%s", f64(gin.W), ctx())
		}
		if gin.Rec != oldG.Rec {
			c.Fail("addnode:in-recurrence", "the gene into the new node has recurrence %t, the split gene had %t\n%s", gin.Rec, oldG.Rec, ctx())
		}
		if gout.W != oldG.W {
			c.Fail("addnode:out-weight", "the gene out of the new node has weight %v, the split gene had %v\n%s", f64(gout.W), f64(oldG.W), ctx())
		}
		if gout.Rec {
			c.Fail("addnode:out-recurrence", "the gene out of the new node is flagged recurrent\n%s", ctx())
		}
		if traitsDump(before) != traitsDump(after) {
			c.Fail("addnode:traits-changed", "%s", ctx())
		}
		if oldG.Rec {
			c.Count("probe.addnode.recurrent_gene_split")
		}
	case OpAddLink:
		if res.Err != nil {
			c.Fail("mutator-error", "%s", ctx())
		}
		if !res.Ok {
			if before.Dump(false) != after.Dump(false) {
				c.Fail("addlink:noop-changed-genome", "the call reported that it did nothing, yet the genome changed\n%s", ctx())
			}
			c.Count("probe.addlink.noop")
			return
		}
		c.Count("probe.addlink.ok")
		if len(d.added) != 1 || len(d.removed) != 0 || len(d.changed) != 0 {
			c.Fail("addlink:gene-diff", "expected exactly one new gene and nothing else: added %d, removed %d, changed %d\n%s", len(d.added), len(d.removed), len(d.changed), ctx())
		}
		if nodesDump(before) != nodesDump(after) || traitsDump(before) != traitsDump(after) {
			c.Fail("addlink:other-change", "nodes or traits changed\n%s", ctx())
		}
		g := d.added[0]
		bn := nodeIds(before)
		src, okS := bn[g.In]
		dst, okD := bn[g.Out]
		_ = src
		if !okS || !okD {
			c.Fail("addlink:endpoint-missing", "the new gene %d->%d does not join two existing nodes\n%s", g.In, g.Out, ctx())
		}
		if dst.Neuron == 1 || dst.Neuron == 3 {
			c.Fail("addlink:sensor-target", "the new gene %d->%d ends in a sensor\n%s", g.In, g.Out, ctx())
		}
		for _, o := range before.Genes {
			if o.In == g.In && o.Out == g.Out && o.Rec == g.Rec {
				c.Fail("addlink:duplicate-link", "the new gene #%d duplicates existing gene #%d (%d->%d, recurrent %t)\n%s", g.Innov, o.Innov, g.In, g.Out, g.Rec, ctx())
			}
		}
		if g.Rec {
			c.Count("probe.addlink.recurrent")
		}
	case OpConnectSensors:
		if res.Err != nil {
			c.Fail("mutator-error", "%s", ctx())
		}
		if !res.Ok {
			if before.Dump(false) != after.Dump(false) {
				c.Fail("connect:noop-changed-genome", "the call reported that it did nothing, yet the genome changed\n%s", ctx())
			}
			c.Count("probe.connect.noop")
			return
		}
		c.Count("probe.connect.ok")
		if len(d.removed) != 0 || len(d.changed) != 0 || len(d.added) == 0 {
			c.Fail("connect:gene-diff", "connect-sensors may only add genes: added %d, removed %d, changed %d\n%s", len(d.added), len(d.removed), len(d.changed), ctx())
		}
		if nodesDump(before) != nodesDump(after) || traitsDump(before) != traitsDump(after) {
			c.Fail("connect:other-change", "nodes or traits changed\n%s", ctx())
		}
		sensor := d.added[0].In
		bn := nodeIds(before)
		if s, ok := bn[sensor]; !ok || (s.Neuron != 1 && s.Neuron != 3) {
			c.Fail("connect:source-not-sensor", "new genes leave node %d, which is not a sensor\n%s", sensor, ctx())
		}
		for _, o := range before.Genes {
			if o.In == sensor {
				c.Fail("connect:sensor-was-connected", "sensor %d already had gene #%d before\n%s", sensor, o.Innov, ctx())
			}
		}
		targets := map[int]int{}
		for _, g := range d.added {
			if g.In != sensor {
				c.Fail("connect:two-sensors", "new genes leave both node %d and node %d\n%s", sensor, g.In, ctx())
			}
			targets[g.Out]++
		}
		for _, n := range before.Nodes {
			isSensor := n.Neuron == 1 || n.Neuron == 3
			if isSensor && targets[n.Id] > 0 {
				c.Fail("connect:sensor-target", "a new gene ends in sensor %d\n%s", n.Id, ctx())
			}
			if !isSensor && targets[n.Id] != 1 {
				c.Fail("connect:not-every-neuron", "non-sensor node %d received %d new genes from sensor %d, expected exactly one\n%s", n.Id, targets[n.Id], sensor, ctx())
			}
		}
	default:
		// weight, trait, toggle, re-enable and their composition: structure is untouchable
		if res.Err != nil {
			c.Fail("mutator-error", "%s", ctx())
		}
		if s1, s2 := structureDump(before), structureDump(after); s1 != s2 {
			c.Fail("parametric:structure-changed", "node set, gene endpoints or innovation numbers changed: %s\n%s", FirstDiff(s1, s2), ctx())
		}
		if res.Op == OpToggleEnable || res.Op == OpAllNonstructural {
			// never disables the last enabled gene leaving a node
			outB, outA := map[int]int{}, map[int]int{}
			for _, g := range before.Genes {
				if g.En {
					outB[g.In]++
				}
			}
			for _, g := range after.Genes {
				if g.En {
					outA[g.In]++
				}
			}
			for _, n := range before.Nodes {
				if outB[n.Id] > 0 && outA[n.Id] == 0 {
					c.Fail("toggle:last-enabled-gene", "node %d had %d enabled outgoing gene(s) before and has none after\n%s", n.Id, outB[n.Id], ctx())
				}
			}
			if res.Op == OpToggleEnable {
				single := false
				for _, n := range before.Nodes {
					if outB[n.Id] == 1 {
						single = true
					}
				}
				if single && before.Dump(false) == after.Dump(false) {
					c.Count("probe.toggle.refused_last_enabled")
				}
			}
		}
		if res.Op == OpReEnable {
			first := -1
			for i, g := range before.Genes {
				if !g.En {
					first = i
					break
				}
			}
			for i, g := range after.Genes {
				wantEn := before.Genes[i].En || i == first
				if g.En != wantEn {
					c.Fail("reenable:wrong-gene", "gene #%d is enabled=%t after re-enable; only the first disabled gene (index %d) may change\n%s", g.Innov, g.En, first, ctx())
				}
			}
			if first >= 0 {
				c.Count("probe.reenable.changed")
			}
			// nothing but that flag changes
			cp := *after
			cp.Genes = append([]GeneRec(nil), after.Genes...)
			if first >= 0 {
				cp.Genes[first].En = false
			}
			if cp.Dump(false) != before.Dump(false) {
				c.Fail("reenable:other-change", "re-enable changed more than one enabled flag: %s\n%s", FirstDiff(before.Dump(false), cp.Dump(false)), ctx())
			}
		}
	}
	h := Mix(uint64(res.Op), after.ShapeHash(), b2u(res.Ok))
	c.State(h)
	rich := false
	for _, n := range before.Nodes {
		if n.Neuron == 0 {
			rich = true
		}
	}
	for _, g := range before.Genes {
		if !g.En || g.Rec {
			rich = true
		}
	}
	if res.Ok && rich {
		c.Nontrivial(h)
	}
}

func scenarioC05(c *RunCtx) {
	t := c.T
	maxPop, maxEpochs, maxOps := 20, 8, 60
	if c.Thorough {
		maxPop, maxEpochs, maxOps = 40, 25, 250
	}
	spec := WorldSpec{
		Prof:         OptProfile{MinPop: 4, MaxPop: maxPop, Parallel: 0, ManySpecies: t.Chance("manySpecies", 1, 2), Structural: t.Pick("structural", 1, 1), ActivationSwarm: true},
		Genome:       GenomeSpec{AllowDisabled: true, MaxHidden: 3},
		AllowShipped: true,
		AllowRandom:  true,
	}
	var w *World
	c.LibSoft("construct", func() { w = NewWorld(t, spec) })
	if w.ConstructErr != nil {
		c.Skip("constructor-error")
	}
	if w.GenelessAtStart > 0 {
		c.Skip("precondition:geneless-random-genome")
	}
	c.Sample = w.Describe()
	c.Op("world: %s", w.Describe())
	env := NewOpsEnvFromWorld(c, w, t.Range("epochs", 0, maxEpochs), t.Range("pool", 1, 5))
	muts := []int{OpAddNode, OpAddLink, OpConnectSensors, OpLinkWeights, OpLinkWeightsCold, OpRandomTrait, OpLinkTrait, OpNodeTrait, OpToggleEnable, OpReEnable, OpAllNonstructural}
	n := t.Range("ops", 1, maxOps)
	for i := 0; i < n; i++ {
		if t.Chance("clone-twin", 1, 6) {
			// put a twin of an operand into the pool: a later structural mutation of the twin can find the record
			// of the same innovation made on its sibling
			a := t.Draw("twin.of", len(env.Pool))
			env.Adopt(CloneGenome(env.Pool[a], env.NextId), env.Fit[a], 8)
			continue
		}
		if env.UseReg == 1 && t.Chance("plant-record", 1, 6) {
			// a record of an innovation made elsewhere (another organism of the generation), built with the public
			// constructors: the split of one of the operand's enabled genes (recurrent-flagged ones first), or a link
			// between two of its nodes
			g := env.Pool[t.Draw("record.of", len(env.Pool))]
			var cands []*genetics.Gene
			for _, gn := range g.Genes {
				if gn.IsEnabled && gn.Link.IsRecurrent {
					cands = append(cands, gn)
				}
			}
			if len(cands) == 0 || t.Chance("record.any", 1, 3) {
				for _, gn := range g.Genes {
					if gn.IsEnabled {
						cands = append(cands, gn)
					}
				}
			}
			st := env.Stub
			if len(cands) > 0 && t.Chance("record.node", 2, 3) {
				gn := cands[t.Draw("record.gene", len(cands))]
				st.Inns = append(st.Inns, *genetics.NewInnovationForNode(gn.Link.InNode.Id, gn.Link.OutNode.Id, st.NextInn+1, st.NextInn+2, st.NextNode+1, gn.InnovationNum))
				st.NextInn += 2
				st.NextNode++
				c.Count("probe.record_planted")
				c.Op("record planted: split of gene #%d %d->%d (recurrent=%t)", gn.InnovationNum, gn.Link.InNode.Id, gn.Link.OutNode.Id, gn.Link.IsRecurrent)
			} else if len(g.Nodes) > 0 {
				in := g.Nodes[t.Draw("record.in", len(g.Nodes))]
				out := g.Nodes[t.Draw("record.out", len(g.Nodes))]
				rec := t.Chance("record.rec", 1, 3)
				if !out.IsSensor() {
					if rec {
						st.Inns = append(st.Inns, *genetics.NewInnovationForRecurrentLink(in.Id, out.Id, st.NextInn+1, 0.5, 0, true))
					} else {
						st.Inns = append(st.Inns, *genetics.NewInnovationForLink(in.Id, out.Id, st.NextInn+1, 0.5, 0))
					}
					st.NextInn++
					c.Count("probe.record_planted")
					c.Op("record planted: link %d->%d (recurrent=%t)", in.Id, out.Id, rec)
				}
			}
			continue
		}
		op, a, _ := env.DrawOp(muts)
		reg, _, _ := env.registry()
		innBefore := len(reg.Innovations())
		issuedBefore := int64(0)
		if env.UseReg == 1 {
			issuedBefore = int64(env.Stub.Issued)
		}
		res := env.Apply(op, a, 0, c.Lib)
		c.Steps++
		c.Op("%s", res.Describe())
		checkMutation(c, res)
		if env.UseReg == 1 && res.Ok && (op == OpAddNode || op == OpAddLink || op == OpConnectSensors) &&
			len(reg.Innovations()) == innBefore && int64(env.Stub.Issued) == issuedBefore {
			c.Count("probe.innovation_reused")
		}
	}
}
