package sim

import (
	"bytes"
	"encoding/json"
	"fmt"
	"io"
	"math"
	"os"
	"os/exec"
	"path/filepath"
	"runtime"
	"runtime/debug"
	"sort"
	"strings"
	"time"

	"github.com/yaricom/goNEAT/v4/neat"
	"github.com/yaricom/goNEAT/v4/neat/genetics"
)

// C17 — evolution is reproducible from the random seed.
//
// One run executes the same scenario (same tape slice => same start genome, options, library seed and fitness
// function) several times under perturbed environments and compares the canonical dumps of the population epoch
// by epoch, bit for bit. The perturbations are what the statement names: wall-clock time (real clock vs the fake
// clock of a testing/synctest bubble with jumps of days between epochs), memory addresses and map seeds (fresh
// allocations after heap churn and forced collections; a fresh child process), earlier unrelated work in the process
// (another world evolved under another seed first), processor count and collector settings.

func init() {
	Register(&Scenario{
		Prop: "C17", Run: scenarioC17, CLI: true, QuickRuns: 2800, ThoroughRuns: 70000, Level: "exploration",
		Rule:       "one run = one scenario (a world: start genome kind, option swarm, seeded deterministic fitness landscape, k epochs with the sequential executor; or an experiment: Experiment.Execute with the sequential executor and a deterministic scripted evaluator; or the shipped command-line runner as a child process: XOR experiment, shipped start genome, small drawn configuration, explicit -seed incl. 0, every rerun started at another simulated wall-clock instant, all files of the output directory compared except the two result files that carry measured durations) executed once as the reference and then 1..4 more times from the same tape slice under a tape-chosen perturbation: immediately again; after unrelated work (another world evolved under another seed, heap churn, forced GC); with GOMAXPROCS 1/4/16 and GC percent 1/25/400; inside a fake-clock bubble starting at 2000-01-01 with sleeps of hours to years between epochs (and different evaluator durations for experiments); in a fresh child process of the worker binary with another GOMAXPROCS/GOGC; with another process-wide log level (what loading an unrelated options file leaves behind; loggers silenced). After construction and after every epoch (or at every evaluator entry) the canonical population dump (species ids, ages, improvement ages, membership in order; every genome with floats as bit patterns; population counters) must be identical to the reference. A case is one compared rerun; non-trivial when the scenario produced structural innovations or more than one species; distinct by (scenario hash, perturbation)",
		RealParts:  []string{"NewPopulation / NewPopulationRandom / ReadPopulation, SequentialPopulationEpochExecutor.NextEpoch with every operator beneath it, Experiment.Execute (sequential)", "math/rand global source seeded by the scenario", "Go runtime: real allocator, collector, map seeds; a real child process for the fresh-process perturbation", "time.Now / time.Since inside Experiment.Execute under the real and under the fake clock", "the command-line runner (executor.go main with the XOR evaluator, real files, real child process), built from the working tree"},
		StubParts:  []string{"fitness assignment (seeded deterministic landscape) / GenerationEvaluator (scripted, deterministic)", "wall clock in the fake-clock perturbation (testing/synctest)", "time.Now in the command-line runner (calls rewritten in a scratch copy to read VERIF_FAKE_NOW)"},
		FaultKinds: []string{"fault.clock_jump", "fault.heap_churn_gc", "fault.unrelated_work", "fault.gomaxprocs_change", "fault.gc_setting_change", "fault.fresh_process", "fault.log_level_change"},
		Assumes:    []string{"the harness module declares go 1.23 so that rand.Seed seeds the global source under the go1.26 toolchain", "a panic inside the library is part of the outcome (both executions must panic at the same step); its text is not compared"},
		ProbeNames: []string{"probe.rerun.immediately", "probe.rerun.after_unrelated_work", "probe.rerun.runtime_settings", "probe.rerun.fake_clock_jumps", "probe.rerun.fresh_process", "probe.rerun.same_start_object", "probe.rerun.other_log_level", "probe.scenario.world", "probe.scenario.experiment", "probe.scenario.command_line_runner", "probe.structural_innovation", "probe.species>=2", "probe.random_world", "probe.readback_world"},
	})
}

// PopDump is the canonical, pointer-free dump of a population (floats as bit patterns).
func PopDump(pop *genetics.Population) string {
	var b strings.Builder
	ni, nn := genetics.VerifCounters(pop)
	fmt.Fprintf(&b, "population organisms=%d species=%d highest=%x sinceHighest=%d lastSpecies=%d nextInnov=%d nextNode=%d meanFitness=%x\n",
		len(pop.Organisms), len(pop.Species), math.Float64bits(pop.HighestFitness), pop.EpochsHighestLastChanged, pop.LastSpecies, ni, nn, math.Float64bits(pop.MeanFitness))
	spId := map[*genetics.Species]int{}
	for _, sp := range pop.Species {
		spId[sp] = sp.Id
		fmt.Fprintf(&b, "species %d age=%d lastImprovement=%d maxFitnessEver=%x expected=%d novel=%t members=[", sp.Id, sp.Age, sp.AgeOfLastImprovement, math.Float64bits(sp.MaxFitnessEver), sp.ExpectedOffspring, sp.IsNovel)
		for i, o := range sp.Organisms {
			if i > 0 {
				b.WriteByte(' ')
			}
			fmt.Fprintf(&b, "%d", o.Genotype.Id)
		}
		b.WriteString("]\n")
	}
	for i, o := range pop.Organisms {
		sid, ok := spId[o.Species]
		if !ok {
			sid = -1
		}
		fmt.Fprintf(&b, "organism %d fitness=%x generation=%d species=%d winner=%t\n", i, math.Float64bits(o.Fitness), o.Generation, sid, o.IsWinner)
		b.WriteString(Canon(o.Genotype).Dump(true))
	}
	return b.String()
}

// c17Outcome is what one execution of a scenario lets an observer see.
type c17Outcome struct {
	Labels  []string // where each dump was taken
	Dumps   []string
	Hashes  []uint64
	Desc    string
	Kind    int
	Struct  bool // structural innovations happened
	Multi   bool // more than one species at some point
	Random  bool
	Read    bool
	Start   *genetics.Genome // the start genome object the execution used (nil for random populations)
	Timeout bool
}

func (o *c17Outcome) add(label, dump string) {
	o.Labels = append(o.Labels, label)
	o.Dumps = append(o.Dumps, dump)
	o.Hashes = append(o.Hashes, HashString(dump))
}

// c17Env perturbs an execution from the inside (between steps).
type c17Env struct {
	between func(step int) // called between epochs / at evaluator entry
	bubble  bool
	sleepNs []int64 // experiment: evaluator durations under the fake clock (nil = as drawn)
	// reuseStart: the execution is given this start genome object (the one an earlier execution already used) instead
	// of a freshly built one: a library that lets descendants write through to the start genome shows here
	reuseStart *genetics.Genome
}

func c17Spec(t *Tape, thorough bool) (WorldSpec, int) {
	maxPop, maxEpochs := 24, 10
	if thorough {
		maxPop, maxEpochs = 60, 40
	}
	return WorldSpec{
		Prof:         OptProfile{MinPop: 3, MaxPop: maxPop, AllowStolen: true, SmallDropOff: t.Chance("smallDropOff", 1, 3), Parallel: 0, ManySpecies: t.Chance("manySpecies", 1, 2), Structural: t.Pick("structural", 1, 2), ActivationSwarm: true},
		Genome:       GenomeSpec{AllowDisabled: true, MaxHidden: 3, ActSwarm: true},
		AllowShipped: true,
		AllowRandom:  true,
		AllowRead:    true,
		AllowModular: true,
	}, maxEpochs
}

// runC17 executes the scenario encoded by the tape. Every draw comes from t, so the same values give the same
// scenario; everything else (clock, heap, processors) is the environment under test.
func runC17(t *Tape, thorough bool, env *c17Env) *c17Outcome {
	out := &c17Outcome{}
	out.Kind = t.Pick("c17.kind", 6, 2, 1)
	body := func() {
		switch out.Kind {
		case 0:
			runC17World(t, thorough, env, out)
		case 1:
			runC17Experiment(t, thorough, env, out)
		default:
			runC17CLI(t, out)
		}
	}
	if env != nil && env.bubble && out.Kind != 2 {
		InBubble(body)
	} else {
		body()
	}
	return out
}

// c17CliNow is the wall-clock second the next execution of the command-line runner is started at (0 = the base
// instant). The runner is a real child process built from /repo's executor.go in which every time.Now() call reads
// this simulated clock (rewritten copy, see simctl buildCLI); everything else in it is the shipped code.
var c17CliNow int64

const c17CliBase = 946684800 // 2000-01-01T00:00:00Z

// runC17CLI runs the shipped experiment runner (package main of the repository) once: XOR experiment, shipped start
// genome, a tape-drawn small configuration and an explicit -seed (0 included), and records every file it leaves in
// its output directory except the two result files that carry measured durations.
func runC17CLI(t *Tape, out *c17Outcome) {
	bin := os.Getenv("VERIF_CLI_BIN")
	if bin == "" {
		panic("harness: VERIF_CLI_BIN is not set for a C17 command-line scenario")
	}
	seed := int64(0)
	switch t.Pick("cli.seedKind", 2, 1, 2) {
	case 1:
		seed = 1
	case 2:
		seed = int64(t.Draw("cli.seed", 1<<31))
	}
	pop := t.Range("cli.pop", 6, 24)
	gens := t.Range("cli.gens", 1, 4)
	trials := t.Range("cli.trials", 1, 2)
	genomeFile := []string{"xorstartgenes", "xordisconnectedstartgenes"}[t.Draw("cli.genome", 2)]
	out.Desc = fmt.Sprintf("command-line runner: XOR, %s, -seed %d, pop=%d gens=%d trials=%d", genomeFile, seed, pop, gens, trials)
	dir, err := os.MkdirTemp("", "verif-c17cli-")
	if err != nil {
		panic("harness: " + err.Error())
	}
	defer os.RemoveAll(dir)
	tmpl, err := os.ReadFile(RepoDir + "/data/xor_test.neat")
	if err != nil {
		panic("harness: " + err.Error())
	}
	var cfg []string
	for _, line := range strings.Split(string(tmpl), "\n") {
		f := strings.Fields(line)
		if len(f) >= 2 {
			switch f[0] {
			case "pop_size":
				line = fmt.Sprintf("pop_size %d", pop)
			case "num_generations":
				line = fmt.Sprintf("num_generations %d", gens)
			case "num_runs":
				line = fmt.Sprintf("num_runs %d", trials)
			case "print_every":
				line = "print_every 1"
			case "log_level":
				line = "log_level error"
			}
		}
		cfg = append(cfg, line)
	}
	ctxFile := dir + "/ctx.neat"
	if err := os.WriteFile(ctxFile, []byte(strings.Join(cfg, "\n")), 0o644); err != nil {
		panic("harness: " + err.Error())
	}
	now := c17CliBase + c17CliNow
	outDir := dir + "/out"
	cmd := exec.Command(bin, "-out", outDir, "-context", ctxFile, "-genome", RepoDir+"/data/"+genomeFile, "-experiment", "XOR", "-seed", fmt.Sprint(seed))
	cmd.Dir = dir
	cmd.Env = append(os.Environ(), fmt.Sprintf("VERIF_FAKE_NOW=%d", now))
	var so bytes.Buffer
	cmd.Stdout, cmd.Stderr = io.Discard, &so
	done := make(chan error, 1)
	if err := cmd.Start(); err != nil {
		panic("harness: cannot start the command-line runner: " + err.Error())
	}
	go func() { done <- cmd.Wait() }()
	select {
	case err = <-done:
	case <-time.After(90 * time.Second):
		_ = cmd.Process.Kill()
		<-done
		out.add("runner", "timeout")
		out.Timeout = true
		return
	}
	status := "exit 0"
	if err != nil {
		status = "failed: " + err.Error()
	}
	out.add("runner exit", status)
	var files []string
	_ = filepath.Walk(outDir, func(p string, info os.FileInfo, err error) error {
		if err == nil && !info.IsDir() {
			files = append(files, p)
		}
		return nil
	})
	sort.Strings(files)
	for _, f := range files {
		rel := strings.TrimPrefix(f, outDir+"/")
		if strings.HasSuffix(rel, ".dat") || strings.HasSuffix(rel, ".npz") {
			out.add("file "+rel, "present (carries measured durations; content not compared)")
			continue
		}
		data, _ := os.ReadFile(f)
		out.add("file "+rel, string(data))
		if strings.Contains(rel, "gen_") {
			out.Struct = true
		}
	}
}

func guarded(out *c17Outcome, label string, f func()) (panicked bool) {
	defer func() {
		if r := recover(); r != nil {
			if _, ok := r.(stopRun); ok {
				panic(r)
			}
			out.add(label, "library panicked")
			panicked = true
		}
	}()
	f()
	return false
}

func runC17World(t *Tape, thorough bool, env *c17Env, out *c17Outcome) {
	spec, maxEpochs := c17Spec(t, thorough)
	var w *World
	if guarded(out, "construct", func() { w = NewWorld(t, spec) }) {
		return
	}
	out.Desc = w.Describe()
	out.Random = w.Kind == StartRandomPop
	out.Read = w.Kind == StartReadBack
	if w.ConstructErr != nil {
		out.add("construct", "constructor error: "+w.ConstructErr.Error())
		return
	}
	out.Start = w.Start
	if env != nil && env.reuseStart != nil && (w.Kind == StartBuilt || w.Kind == StartShipped) {
		// same seed, same options, but the start genome is the object the reference execution spawned from
		seedLib(w.LibSeed)
		var err error
		if guarded(out, "construct", func() { w.Pop, err = genetics.NewPopulation(env.reuseStart, w.Opts) }) {
			return
		}
		if err != nil {
			out.add("construct", "constructor error: "+err.Error())
			return
		}
	}
	out.add("after construction", PopDump(w.Pop))
	epochs := t.Range("epochs", 1, maxEpochs)
	maxInnov0, _ := genetics.VerifCounters(w.Pop)
	for e := 0; e < epochs; e++ {
		if env != nil && env.between != nil {
			env.between(e)
		}
		if len(w.Pop.Species) > 1 {
			out.Multi = true
		}
		w.AssignFitness()
		var err error
		if guarded(out, fmt.Sprintf("epoch %d", e), func() { err = w.Exec.NextEpoch(w.Ctx, w.Gen, w.Pop) }) {
			return
		}
		w.Gen++
		if err != nil {
			out.add(fmt.Sprintf("epoch %d", e), "NextEpoch error: "+err.Error())
			return
		}
		// bound the scenario: crossover of modular genomes can make genomes grow without limit (outside what the
		// properties specify); the cut is a function of the population only, so every execution stops at the same point
		total := 0
		for _, o := range w.Pop.Organisms {
			total += len(o.Genotype.Nodes) + len(o.Genotype.Genes) + len(o.Genotype.ControlGenes)
			for _, cg := range o.Genotype.ControlGenes {
				total += len(cg.ControlNode.Incoming) + len(cg.ControlNode.Outgoing)
			}
		}
		if total > 400*len(w.Pop.Organisms) {
			out.add(fmt.Sprintf("after epoch %d", e), fmt.Sprintf("scenario stopped: genomes grew to %d parts in a population of %d", total, len(w.Pop.Organisms)))
			return
		}
		out.add(fmt.Sprintf("after epoch %d", e), PopDump(w.Pop))
	}
	if mi, _ := genetics.VerifCounters(w.Pop); mi > maxInnov0 {
		out.Struct = true
	}
}

func runC17Experiment(t *Tape, thorough bool, env *c17Env, out *c17Outcome) {
	maxTrials, maxGens, maxPop := 2, 4, 12
	if thorough {
		maxTrials, maxGens, maxPop = 3, 8, 24
	}
	c := NewRunCtx(t, "C17", "")
	var s *ExpSim
	if guarded(out, "draw", func() { s = DrawExpSim(c, maxTrials, maxGens, maxPop, false) }) {
		return
	}
	s.Opts.EpochExecutorType = neat.EpochExecutorTypeSequential
	out.Desc = "experiment: " + s.Describe()
	out.Start = s.Start
	if env != nil && env.reuseStart != nil {
		s.Start = env.reuseStart
	}
	s.NoBubble = true // the bubble, if any, is installed around the whole execution by runC17
	inBubble := env != nil && env.bubble
	step := 0
	s.OnEval = func(trial, gen int, pop *genetics.Population) {
		if env != nil && env.between != nil {
			env.between(step)
		}
		step++
		if len(pop.Species) > 1 {
			out.Multi = true
		}
		if gen > 0 {
			if mi, _ := genetics.VerifCounters(pop); mi > int64(len(s.Start.Genes))+1 {
				out.Struct = true
			}
		}
		out.add(fmt.Sprintf("trial %d generation %d at evaluator entry", trial, gen), PopDump(pop))
		if inBubble {
			// evaluation takes simulated time, different from execution to execution
			d := time.Duration(1+step) * time.Second
			if env.sleepNs != nil {
				d = time.Duration(env.sleepNs[step%len(env.sleepNs)])
			}
			time.Sleep(d)
		}
	}
	seedLib(int64(t.Draw("exec.libseed", 1<<31)))
	panicked := false
	s.Run(func(name string, f func()) { panicked = guarded(out, name, f) })
	if panicked {
		return
	}
	// what the caller keeps: the recorded trials with their champions
	var b strings.Builder
	fmt.Fprintf(&b, "err=%v trials=%d\n", s.Err, len(s.Exp.Trials))
	for ti := range s.Exp.Trials {
		tr := &s.Exp.Trials[ti]
		fmt.Fprintf(&b, "trial %d generations=%d\n", tr.Id, len(tr.Generations))
		for gi := range tr.Generations {
			g := &tr.Generations[gi]
			fmt.Fprintf(&b, "generation %d solved=%t diversity=%d winner=%d/%d/%d fitness=%x age=%x complexity=%x\n", g.Id, g.Solved, g.Diversity, g.WinnerNodes, g.WinnerGenes, g.WinnerEvals, bits(g.Fitness), bits(g.Age), bits(g.Complexity))
			if g.Champion != nil {
				fmt.Fprintf(&b, "champion fitness=%x\n%s", math.Float64bits(g.Champion.Fitness), Canon(g.Champion.Genotype).Dump(true))
			}
		}
	}
	out.add("recorded experiment", b.String())
}

// ---------- perturbations ----------

const (
	pertAgain = iota
	pertUnrelated
	pertRuntime
	pertClock
	pertProcess
	pertSameStart
	pertLogLevel
	numPerts
)

var pertNames = []string{"immediately-again", "after-unrelated-work", "runtime-settings", "fake-clock-jumps", "fresh-process", "same-start-genome-object", "other-log-level"}

var c17Junk [][]byte // keeps heap churn alive across executions so that later allocations land elsewhere

func heapChurn(r *SubRNG) {
	n := 50 + r.Intn(400)
	var keep [][]byte
	for i := 0; i < n; i++ {
		b := make([]byte, 16+r.Intn(4096))
		if r.Intn(3) == 0 {
			keep = append(keep, b)
		}
	}
	m := map[int]*[7]int{}
	for i := 0; i < 200+r.Intn(2000); i++ {
		m[r.Intn(1<<20)] = &[7]int{i}
	}
	if len(c17Junk) > 4000 {
		c17Junk = c17Junk[:0]
	}
	c17Junk = append(c17Junk, keep...)
	if r.Intn(2) == 0 {
		runtime.GC()
	}
	_ = m
}

func unrelatedWork(r *SubRNG) {
	// another world, under another seed, evolved first: it draws from the global random source, issues innovation
	// numbers and node ids in its own population, fills caches if the library had any
	ut := NewRecordTape(r.U64())
	spec, _ := c17Spec(ut, false)
	func() {
		defer func() { _ = recover() }()
		w := NewWorld(ut, spec)
		if w.ConstructErr != nil {
			return
		}
		for e := 0; e < 1+r.Intn(4); e++ {
			w.AssignFitness()
			if err := w.Exec.NextEpoch(w.Ctx, w.Gen, w.Pop); err != nil {
				return
			}
			w.Gen++
		}
	}()
	heapChurn(r)
}

// C17ChainJob is the child-process side of the fresh-process perturbation: it executes the scenario of the tape and
// prints the dump hashes.
func C17ChainJob(job *Job, out io.Writer) int {
	QuietLogs()
	fmt.Sscan(os.Getenv("VERIF_C17_CLINOW"), &c17CliNow)
	o := runC17(NewReplayTape(job.Tape), job.Tier == "thorough", nil)
	emit(out, map[string]interface{}{"type": "chain", "hashes": o.Hashes, "labels": o.Labels})
	return 0
}

func c17Child(sub []uint32, thorough bool, gomaxprocs, gogc string) (hashes []uint64, labels []string, err error) {
	tier := "quick"
	if thorough {
		tier = "thorough"
	}
	spec, _ := json.Marshal(&Job{Mode: "c17chain", Prop: "C17", Tier: tier, Tape: sub})
	cmd := exec.Command(os.Args[0], "-test.run", "^TestSim$", "-test.timeout", "0")
	cmd.Env = append(os.Environ(), "VERIF_JOB="+string(spec), "GOMAXPROCS="+gomaxprocs, "GOGC="+gogc, "VERIF_WATCHDOG_S=120", fmt.Sprintf("VERIF_C17_CLINOW=%d", c17CliNow))
	var so, se bytes.Buffer
	cmd.Stdout, cmd.Stderr = &so, &se
	if err := cmd.Run(); err != nil {
		return nil, nil, fmt.Errorf("child process: %v: %s", err, se.String())
	}
	for _, line := range bytes.Split(so.Bytes(), []byte("\n")) {
		if len(line) == 0 || line[0] != '{' {
			continue
		}
		var m struct {
			Type   string   `json:"type"`
			Hashes []uint64 `json:"hashes"`
			Labels []string `json:"labels"`
		}
		if json.Unmarshal(line, &m) == nil && m.Type == "chain" {
			return m.Hashes, m.Labels, nil
		}
	}
	return nil, nil, fmt.Errorf("child process printed no chain: %s", so.String())
}

func scenarioC17(c *RunCtx) {
	t := c.T
	p0 := t.Pos()
	ref := runC17(t, c.Thorough, nil)
	sub := t.Slice(p0, t.Pos())
	c.Sample = ref.Desc
	c.Op("reference execution: %s; %d observation points", ref.Desc, len(ref.Dumps))
	switch ref.Kind {
	case 0:
		c.Count("probe.scenario.world")
	case 1:
		c.Count("probe.scenario.experiment")
	default:
		c.Count("probe.scenario.command_line_runner")
		if ref.Timeout {
			// the runner did not finish (it is outside what this property specifies why); nothing to compare
			c.Skip("cli-runner-timeout")
		}
	}
	if ref.Struct {
		c.Count("probe.structural_innovation")
	}
	if ref.Multi {
		c.Count("probe.species>=2")
	}
	if ref.Random {
		c.Count("probe.random_world")
	}
	if ref.Read {
		c.Count("probe.readback_world")
	}
	c.Steps += len(ref.Dumps)
	scnHash := uint64(len(ref.Hashes))
	for _, h := range ref.Hashes {
		scnHash = Mix(scnHash, h)
	}
	reruns := t.Range("reruns", 1, 4)
	for i := 0; i < reruns; i++ {
		w := []int{2, 3, 2, 3, 1, 2, 2}
		if ref.Start == nil {
			w[pertSameStart] = 0
		}
		if !HasFakeClock {
			w[pertClock] = 0
		}
		pert := t.Pick("perturbation", w...)
		rng := t.Sub("perturbation.seed")
		if ref.Kind == 2 {
			// every rerun of the command-line runner starts at another wall-clock instant (seconds to decades later)
			c17CliNow = 1 + int64(rng.Intn(1<<20))*int64(1+rng.Intn(600))
			c.Count("fault.clock_jump")
			c.SimNanos += c17CliNow * int64(time.Second)
		}
		var got *c17Outcome
		detail := ""
		switch pert {
		case pertAgain:
			c.Count("probe.rerun.immediately")
			got = runC17(NewReplayTape(sub), c.Thorough, nil)
		case pertUnrelated:
			c.Count("probe.rerun.after_unrelated_work")
			c.Count("fault.unrelated_work")
			unrelatedWork(rng)
			churn := rng.Intn(2) == 0
			got = runC17(NewReplayTape(sub), c.Thorough, &c17Env{between: func(int) {
				if churn {
					heapChurn(rng)
				}
			}})
			if churn {
				c.Count("fault.heap_churn_gc")
			}
		case pertRuntime:
			c.Count("probe.rerun.runtime_settings")
			procs := []int{1, 4, 16}[rng.Intn(3)]
			gcp := []int{1, 25, 400}[rng.Intn(3)]
			detail = fmt.Sprintf(" (GOMAXPROCS %d, GC percent %d, heap churn between epochs)", procs, gcp)
			oldP := runtime.GOMAXPROCS(procs)
			oldG := debug.SetGCPercent(gcp)
			c.Count("fault.gomaxprocs_change")
			c.Count("fault.gc_setting_change")
			func() {
				defer func() {
					runtime.GOMAXPROCS(oldP)
					debug.SetGCPercent(oldG)
				}()
				got = runC17(NewReplayTape(sub), c.Thorough, &c17Env{between: func(int) { heapChurn(rng) }})
			}()
			c.Count("fault.heap_churn_gc")
		case pertClock:
			c.Count("probe.rerun.fake_clock_jumps")
			jumps := 0
			var total time.Duration
			var sleeps []int64
			for k := 0; k < 5; k++ {
				sleeps = append(sleeps, int64(1+rng.Intn(3_600_000))*int64(time.Millisecond))
			}
			got = runC17(NewReplayTape(sub), c.Thorough, &c17Env{bubble: true, sleepNs: sleeps, between: func(int) {
				// hours to years
				d := time.Duration(1+rng.Intn(24*400)) * time.Hour
				time.Sleep(d)
				total += d
				jumps++
			}})
			c.CountN("fault.clock_jump", jumps)
			c.SimNanos += int64(total)
			detail = fmt.Sprintf(" (fake clock from 2000-01-01, %d jumps, %v simulated)", jumps, total)
		case pertSameStart:
			c.Count("probe.rerun.same_start_object")
			got = runC17(NewReplayTape(sub), c.Thorough, &c17Env{reuseStart: ref.Start})
		case pertLogLevel:
			// earlier unrelated work in the process: loading any options file sets the process-wide log level
			// (neat.InitLogger). The loggers themselves stay silenced; only the level the library branches on changes
			c.Count("probe.rerun.other_log_level")
			c.Count("fault.log_level_change")
			level := []string{"debug", "debug", "info", "warn"}[rng.Intn(4)]
			detail = fmt.Sprintf(" (process-wide log level %q)", level)
			func() {
				defer func() { _ = neat.InitLogger("error") }()
				_ = neat.InitLogger(level)
				got = runC17(NewReplayTape(sub), c.Thorough, &c17Env{between: func(int) { _ = neat.InitLogger(level) }})
			}()
		case pertProcess:
			c.Count("probe.rerun.fresh_process")
			c.Count("fault.fresh_process")
			gmp := []string{"1", "2", "16"}[rng.Intn(3)]
			gogc := []string{"100", "10", "400"}[rng.Intn(3)]
			detail = fmt.Sprintf(" (child process, GOMAXPROCS=%s GOGC=%s)", gmp, gogc)
			hashes, labels, err := c17Child(sub, c.Thorough, gmp, gogc)
			if err != nil {
				c.Crash = "C17 fresh-process perturbation: " + err.Error()
				panic(stopRun{})
			}
			got = &c17Outcome{Hashes: hashes, Labels: labels}
			got.Timeout = len(labels) == 1 && labels[0] == "runner"
		}
		if ref.Kind == 2 {
			detail += fmt.Sprintf(" (runner started %d s after the reference)", c17CliNow)
			c17CliNow = 0
			if got.Timeout {
				c.Skip("cli-runner-timeout")
			}
		}
		c.Op("rerun %d: %s%s -> %d observation points", i, pertNames[pert], detail, len(got.Hashes))
		// compare
		n := len(ref.Hashes)
		if len(got.Hashes) < n {
			n = len(got.Hashes)
		}
		for k := 0; k < n; k++ {
			if ref.Hashes[k] != got.Hashes[k] {
				diff := "(dump not available from the child process)"
				if k < len(got.Dumps) {
					diff = FirstDiff(ref.Dumps[k], got.Dumps[k])
				}
				c.Fail("divergence:"+pertNames[pert], "scenario [%s]: the execution %s%s differs from the reference execution at observation point %d (%s): %s", ref.Desc, pertNames[pert], detail, k, ref.Labels[k], diff)
			}
		}
		if len(ref.Hashes) != len(got.Hashes) {
			c.Fail("divergence:"+pertNames[pert], "scenario [%s]: the execution %s%s has %d observation points, the reference has %d (last common: %s)", ref.Desc, pertNames[pert], detail, len(got.Hashes), len(ref.Hashes), lastLabel(ref.Labels, n))
		}
		h := Mix(scnHash, uint64(pert))
		c.State(h)
		if ref.Struct || ref.Multi {
			c.Nontrivial(h)
		}
		c.Steps += len(got.Hashes)
	}
}

func lastLabel(l []string, n int) string {
	if n <= 0 || n > len(l) {
		return "none"
	}
	return l[n-1]
}
