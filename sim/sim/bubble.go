package sim

// InBubble runs f with a fake clock when the worker was built with a toolchain that has testing/synctest
// (the worker installs the implementation); otherwise f runs under the real clock. HasFakeClock tells which.
var InBubble = func(f func()) { f() }

var HasFakeClock = false
