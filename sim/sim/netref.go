package sim

import (
	"fmt"
	"math"
	"sort"

	"github.com/yaricom/goNEAT/v4/neat/genetics"
	neatmath "github.com/yaricom/goNEAT/v4/neat/math"
	"github.com/yaricom/goNEAT/v4/neat/network"
)

// RefEdge is one link the expressed network must contain.
type RefEdge struct {
	In, Out int
	W       uint64
	Rec     bool
}

// RefNet is the reference expression of a genome: what Genesis must build, computed from the canonical record only.
type RefNet struct {
	Nodes   []NodeRec
	Inputs  []int // ids of input and bias nodes in genome order
	Outputs []int
	Edges   []RefEdge // one per enabled gene, gene order
	Mods    []ModRec  // enabled modules only
	idx     map[int]int
}

func RefExpress(r *GenomeRec) *RefNet {
	n := &RefNet{Nodes: r.Nodes, idx: map[int]int{}}
	for i, nd := range r.Nodes {
		n.idx[nd.Id] = i
		switch nd.Neuron {
		case int(network.InputNeuron), int(network.BiasNeuron):
			n.Inputs = append(n.Inputs, nd.Id)
		case int(network.OutputNeuron):
			n.Outputs = append(n.Outputs, nd.Id)
		}
	}
	for _, g := range r.Genes {
		if g.En {
			n.Edges = append(n.Edges, RefEdge{g.In, g.Out, g.W, g.Rec})
		}
	}
	for _, m := range r.Mods {
		if m.En {
			n.Mods = append(n.Mods, m)
		}
	}
	return n
}

func (n *RefNet) neuron(id int) int { return n.Nodes[n.idx[id]].Neuron }

func isSensorType(t int) bool {
	return t == int(network.InputNeuron) || t == int(network.BiasNeuron)
}

// CompareNetwork checks that net is exactly the reference expression. Returns "" or (clause, detail).
func (n *RefNet) CompareNetwork(net *network.Network) (string, string) {
	base := net.BaseNodes()
	if len(base) != len(n.Nodes) {
		return "node-count", fmt.Sprintf("network has %d base nodes, genome has %d nodes", len(base), len(n.Nodes))
	}
	byId := map[int]*network.NNode{}
	own := map[*network.NNode]bool{}
	for i, nd := range base {
		want := n.Nodes[i]
		if nd.Id != want.Id || int(nd.NeuronType) != want.Neuron || int(nd.ActivationType) != want.Act {
			return "node-attributes", fmt.Sprintf("base node %d is (id %d, role %d, activation %d); the genome's node %d is (id %d, role %d, activation %d)", i, nd.Id, nd.NeuronType, nd.ActivationType, i, want.Id, want.Neuron, want.Act)
		}
		byId[nd.Id] = nd
		own[nd] = true
	}
	if len(net.Outputs) != len(n.Outputs) {
		return "outputs", fmt.Sprintf("network has %d outputs, genome has %d output nodes", len(net.Outputs), len(n.Outputs))
	}
	for i, o := range net.Outputs {
		if o.Id != n.Outputs[i] || byId[o.Id] != o {
			return "outputs", fmt.Sprintf("output %d of the network is node %d, the genome's %d-th output node is %d", i, o.Id, i, n.Outputs[i])
		}
	}
	// links
	type lrec struct {
		in, out int
		w       uint64
		rec     bool
	}
	wantIn := map[int][]lrec{}
	wantOut := map[int][]lrec{}
	for _, e := range n.Edges {
		l := lrec{e.In, e.Out, e.W, e.Rec}
		wantIn[e.Out] = append(wantIn[e.Out], l)
		wantOut[e.In] = append(wantOut[e.In], l)
	}
	outSeen := map[*network.Link]bool{}
	for _, nd := range base {
		if len(nd.Outgoing) != len(wantOut[nd.Id]) {
			return "link-count", fmt.Sprintf("node %d has %d outgoing links, its enabled genes give %d", nd.Id, len(nd.Outgoing), len(wantOut[nd.Id]))
		}
		for k, l := range nd.Outgoing {
			w := wantOut[nd.Id][k]
			if l.InNode != nd || !own[l.OutNode] || l.OutNode.Id != w.out || math.Float64bits(l.ConnectionWeight) != w.w || l.IsRecurrent != w.rec {
				return "link", fmt.Sprintf("outgoing link %d of node %d is %d->%d weight %v recurrent %t; the enabled gene gives %d->%d weight %v recurrent %t", k, nd.Id, nodeId(l.InNode), nodeId(l.OutNode), l.ConnectionWeight, l.IsRecurrent, w.in, w.out, f64(w.w), w.rec)
			}
			outSeen[l] = true
		}
	}
	for _, nd := range base {
		if len(nd.Incoming) != len(wantIn[nd.Id]) {
			return "link-count", fmt.Sprintf("node %d has %d incoming links, its enabled genes give %d", nd.Id, len(nd.Incoming), len(wantIn[nd.Id]))
		}
		for k, l := range nd.Incoming {
			w := wantIn[nd.Id][k]
			if l.OutNode != nd || !own[l.InNode] || l.InNode.Id != w.in || math.Float64bits(l.ConnectionWeight) != w.w || l.IsRecurrent != w.rec {
				return "link", fmt.Sprintf("incoming link %d of node %d is %d->%d weight %v recurrent %t; the enabled gene gives %d->%d weight %v recurrent %t", k, nd.Id, nodeId(l.InNode), nodeId(l.OutNode), l.ConnectionWeight, l.IsRecurrent, w.in, w.out, f64(w.w), w.rec)
			}
			if !outSeen[l] {
				return "link", fmt.Sprintf("incoming link %d->%d of node %d is not the same object as the source's outgoing link", l.InNode.Id, nd.Id, nd.Id)
			}
		}
	}
	// control nodes
	ctrl := net.ControlNodes()
	if len(ctrl) != len(n.Mods) {
		return "module-count", fmt.Sprintf("network has %d control nodes, genome has %d enabled modules", len(ctrl), len(n.Mods))
	}
	for i, cn := range ctrl {
		m := n.Mods[i]
		if cn.Id != m.CtrlId || int(cn.ActivationType) != m.Act {
			return "module", fmt.Sprintf("control node %d is (id %d, activation %d), module is (id %d, activation %d)", i, cn.Id, cn.ActivationType, m.CtrlId, m.Act)
		}
		if len(cn.Incoming) != len(m.Ins) || len(cn.Outgoing) != len(m.Outs) {
			return "module", fmt.Sprintf("control node %d has %d inputs / %d outputs, module lists %d / %d", cn.Id, len(cn.Incoming), len(cn.Outgoing), len(m.Ins), len(m.Outs))
		}
		for k, l := range cn.Incoming {
			if l.InNode == nil || l.InNode.Id != m.Ins[k] || byId[l.InNode.Id] != l.InNode || l.OutNode != cn {
				return "module", fmt.Sprintf("control node %d input %d is wired to node %d, module lists %d", cn.Id, k, nodeId(l.InNode), m.Ins[k])
			}
		}
		for k, l := range cn.Outgoing {
			if l.OutNode == nil || l.OutNode.Id != m.Outs[k] || byId[l.OutNode.Id] != l.OutNode || l.InNode != cn {
				return "module", fmt.Sprintf("control node %d output %d is wired to node %d, module lists %d", cn.Id, k, nodeId(l.OutNode), m.Outs[k])
			}
		}
	}
	all := net.AllNodes()
	if len(all) != len(base)+len(ctrl) {
		return "all-nodes", fmt.Sprintf("AllNodes has %d entries, base + control is %d", len(all), len(base)+len(ctrl))
	}
	// counts
	links := len(n.Edges)
	for _, m := range n.Mods {
		links += len(m.Ins) + len(m.Outs)
	}
	if got := net.NodeCount(); got != len(n.Nodes)+len(n.Mods) {
		return "node-count-query", fmt.Sprintf("NodeCount() = %d, expected %d nodes + %d enabled modules", got, len(n.Nodes), len(n.Mods))
	}
	if got := net.LinkCount(); got != links {
		return "link-count-query", fmt.Sprintf("LinkCount() = %d, expected %d (enabled genes and module wires)", got, links)
	}
	if got := net.Complexity(); got != len(n.Nodes)+len(n.Mods)+links {
		return "complexity-query", fmt.Sprintf("Complexity() = %d, expected %d", got, len(n.Nodes)+len(n.Mods)+links)
	}
	return "", ""
}

// CompareGraphView checks the gonum graph view over all ordered pairs of present ids plus absent ones.
func (n *RefNet) CompareGraphView(net *network.Network) (string, string) {
	type pair struct{ u, v int }
	weights := map[pair][]uint64{}
	succ := map[int][]int{}
	pred := map[int][]int{}
	for _, e := range n.Edges {
		weights[pair{e.In, e.Out}] = append(weights[pair{e.In, e.Out}], e.W)
		succ[e.In] = append(succ[e.In], e.Out)
		pred[e.Out] = append(pred[e.Out], e.In)
	}
	ids := []int{}
	for _, nd := range n.Nodes {
		ids = append(ids, nd.Id)
	}
	for _, m := range n.Mods {
		ids = append(ids, m.CtrlId)
		seenIn := map[int]bool{}
		for k, in := range m.Ins {
			weights[pair{in, m.CtrlId}] = append(weights[pair{in, m.CtrlId}], m.InW[k])
			if !seenIn[in] {
				succ[in] = append(succ[in], m.CtrlId)
				seenIn[in] = true
			}
			pred[m.CtrlId] = append(pred[m.CtrlId], in)
		}
		seenOut := map[int]bool{}
		for k, out := range m.Outs {
			weights[pair{m.CtrlId, out}] = append(weights[pair{m.CtrlId, out}], m.OutW[k])
			succ[m.CtrlId] = append(succ[m.CtrlId], out)
			if !seenOut[out] {
				pred[out] = append(pred[out], m.CtrlId)
				seenOut[out] = true
			}
		}
	}
	present := map[int]bool{}
	maxId := 0
	for _, id := range ids {
		present[id] = true
		if id > maxId {
			maxId = id
		}
	}
	probe := append(append([]int{}, ids...), maxId+1, maxId+13, 0, -3)
	// Nodes()
	it := net.Nodes()
	cnt := 0
	seen := map[int64]bool{}
	for it.Next() {
		nd := it.Node()
		if nd == nil || !present[int(nd.ID())] || seen[nd.ID()] {
			return "graph:nodes", fmt.Sprintf("Nodes() yields an unexpected node %v", nd)
		}
		seen[nd.ID()] = true
		cnt++
	}
	if cnt != len(ids) {
		return "graph:nodes", fmt.Sprintf("Nodes() yields %d nodes, expected %d", cnt, len(ids))
	}
	collect := func(it interface {
		Next() bool
	}, get func() int64) []int {
		var r []int
		for it.Next() {
			r = append(r, int(get()))
		}
		sort.Ints(r)
		return r
	}
	sorted := func(x []int) []int {
		y := append([]int{}, x...)
		sort.Ints(y)
		return y
	}
	eq := func(a, b []int) bool {
		if len(a) != len(b) {
			return false
		}
		for i := range a {
			if a[i] != b[i] {
				return false
			}
		}
		return true
	}
	for _, u := range probe {
		nd := net.Node(int64(u))
		if present[u] {
			if nd == nil || nd.ID() != int64(u) {
				return "graph:node", fmt.Sprintf("Node(%d) = %v for a present id", u, nd)
			}
		} else if nd != nil {
			return "graph:node", fmt.Sprintf("Node(%d) is not nil for an absent id", u)
		}
		f := net.From(int64(u))
		got := collect(f, func() int64 { return f.Node().ID() })
		if want := sorted(succ[u]); !eq(got, want) {
			return "graph:from", fmt.Sprintf("From(%d) = %v, the genome gives successors %v", u, got, want)
		}
		tt := net.To(int64(u))
		got = collect(tt, func() int64 { return tt.Node().ID() })
		if want := sorted(pred[u]); !eq(got, want) {
			return "graph:to", fmt.Sprintf("To(%d) = %v, the genome gives predecessors %v", u, got, want)
		}
		for _, v := range probe {
			ws, has := weights[pair{u, v}]
			_, hasRev := weights[pair{v, u}]
			e := net.Edge(int64(u), int64(v))
			we := net.WeightedEdge(int64(u), int64(v))
			w, ok := net.Weight(int64(u), int64(v))
			hft := net.HasEdgeFromTo(int64(u), int64(v))
			heb := net.HasEdgeBetween(int64(u), int64(v))
			if has {
				if e == nil || we == nil || !ok || !hft {
					return "graph:edge-missing", fmt.Sprintf("the genome has an enabled link %d->%d but Edge=%v WeightedEdge=%v Weight ok=%t HasEdgeFromTo=%t", u, v, e != nil, we != nil, ok, hft)
				}
				if e.From().ID() != int64(u) || e.To().ID() != int64(v) {
					return "graph:edge-endpoints", fmt.Sprintf("Edge(%d,%d) joins %d->%d", u, v, e.From().ID(), e.To().ID())
				}
				okw := false
				for _, x := range ws {
					if math.Float64bits(w) == x && math.Float64bits(we.Weight()) == x {
						okw = true
					}
				}
				if !okw && len(ws) == 1 {
					return "graph:weight", fmt.Sprintf("Weight(%d,%d) = %v / WeightedEdge weight %v, the gene's weight is %v", u, v, w, we.Weight(), f64(ws[0]))
				}
				if !okw {
					// several links between the pair: each reported weight must be one of them
					a, b := false, false
					for _, x := range ws {
						if math.Float64bits(w) == x {
							a = true
						}
						if math.Float64bits(we.Weight()) == x {
							b = true
						}
					}
					if !a || !b {
						return "graph:weight", fmt.Sprintf("Weight(%d,%d) = %v / %v is none of the weights of the links joining the pair", u, v, w, we.Weight())
					}
				}
			} else {
				if e != nil || we != nil || ok || hft {
					return "graph:edge-phantom", fmt.Sprintf("the genome has no enabled link %d->%d but Edge=%v WeightedEdge=%v Weight ok=%t HasEdgeFromTo=%t", u, v, e != nil, we != nil, ok, hft)
				}
			}
			if heb != (has || hasRev) {
				return "graph:has-edge-between", fmt.Sprintf("HasEdgeBetween(%d,%d) = %t, links in the genome: %d->%d %t, %d->%d %t", u, v, heb, u, v, has, v, u, hasRev)
			}
		}
	}
	return "", ""
}

// ---------- feed-forward reference evaluation ----------

// FFInfo describes a feed-forward network for the C12 / C14 oracles.
type FFInfo struct {
	Acyclic        bool
	AllReachable   bool  // every neuron is reachable from a sensor
	Order          []int // topological order of node ids
	LongestFromSen int   // longest sensor -> output path (links)
	LongestToOut   int   // longest path ending in an output, from any node
	HasHidden      bool
	in             map[int][]RefEdge
}

// Analyse computes acyclicity, reachability and path lengths on the expressed (enabled) links.
func (n *RefNet) Analyse() *FFInfo {
	info := &FFInfo{in: map[int][]RefEdge{}}
	out := map[int][]RefEdge{}
	indeg := map[int]int{}
	for _, nd := range n.Nodes {
		indeg[nd.Id] = 0
		if nd.Neuron == int(network.HiddenNeuron) {
			info.HasHidden = true
		}
	}
	for _, e := range n.Edges {
		info.in[e.Out] = append(info.in[e.Out], e)
		out[e.In] = append(out[e.In], e)
		indeg[e.Out]++
	}
	// Kahn, deterministic by node order
	var queue []int
	for _, nd := range n.Nodes {
		if indeg[nd.Id] == 0 {
			queue = append(queue, nd.Id)
		}
	}
	for len(queue) > 0 {
		u := queue[0]
		queue = queue[1:]
		info.Order = append(info.Order, u)
		for _, e := range out[u] {
			indeg[e.Out]--
			if indeg[e.Out] == 0 {
				queue = append(queue, e.Out)
			}
		}
	}
	info.Acyclic = len(info.Order) == len(n.Nodes)
	if !info.Acyclic {
		return info
	}
	// reachability from sensors and longest paths
	reach := map[int]bool{}
	fromSensor := map[int]int{} // longest path from a sensor, -1 if unreachable
	anyStart := map[int]int{}   // longest path ending here from any node
	for _, u := range info.Order {
		if isSensorType(n.neuron(u)) {
			reach[u] = true
			fromSensor[u] = 0
		} else {
			fromSensor[u] = -1
		}
		anyStart[u] = 0
		for _, e := range info.in[u] {
			if reach[e.In] {
				reach[u] = true
				if fromSensor[e.In]+1 > fromSensor[u] {
					fromSensor[u] = fromSensor[e.In] + 1
				}
			}
			if anyStart[e.In]+1 > anyStart[u] {
				anyStart[u] = anyStart[e.In] + 1
			}
		}
	}
	info.AllReachable = true
	for _, nd := range n.Nodes {
		if !isSensorType(nd.Neuron) && !reach[nd.Id] {
			info.AllReachable = false
		}
	}
	for _, o := range n.Outputs {
		if fromSensor[o] > info.LongestFromSen {
			info.LongestFromSen = fromSensor[o]
		}
		if anyStart[o] > info.LongestToOut {
			info.LongestToOut = anyStart[o]
		}
	}
	return info
}

// Evaluate computes the feed-forward function: each neuron once in topological order as activation(sum of
// weight*source), bias inputs being one. inputs are the values of the non-bias input nodes in genome order.
// minMargin is the smallest |sum| seen at a neuron with a discontinuous activation (step, sign).
func (n *RefNet) Evaluate(info *FFInfo, inputs []float64) (outs []float64, minMargin float64, err error) {
	val := map[int]float64{}
	k := 0
	for _, id := range n.Inputs {
		if n.neuron(id) == int(network.BiasNeuron) {
			val[id] = 1.0
		} else {
			val[id] = inputs[k]
			k++
		}
	}
	minMargin = math.Inf(1)
	for _, u := range info.Order {
		nd := n.Nodes[n.idx[u]]
		if isSensorType(nd.Neuron) {
			continue
		}
		sum := 0.0
		for _, e := range info.in[u] {
			sum += f64(e.W) * val[e.In]
		}
		at := neatmath.NodeActivationType(nd.Act)
		if at == neatmath.StepActivation || at == neatmath.SignActivation {
			if math.Abs(sum) < minMargin {
				minMargin = math.Abs(sum)
			}
		}
		v, e := neatmath.NodeActivators.ActivateByType(sum, nil, at)
		if e != nil {
			return nil, 0, e
		}
		val[u] = v
	}
	for _, o := range n.Outputs {
		outs = append(outs, val[o])
	}
	return outs, minMargin, nil
}

// NumPlainInputs is the number of non-bias input nodes.
func (n *RefNet) NumPlainInputs() int {
	k := 0
	for _, id := range n.Inputs {
		if n.neuron(id) == int(network.InputNeuron) {
			k++
		}
	}
	return k
}

// EvolveForNets builds a world, evolves it and returns harness copies of tape-chosen genomes for the network drivers.
func EvolveForNets(c *RunCtx, spec WorldSpec, maxEpochs, take int) (*World, []*genetics.Genome) {
	t := c.T
	var w *World
	c.LibSoft("construct", func() { w = NewWorld(t, spec) })
	if w.ConstructErr != nil {
		c.Skip("constructor-error")
	}
	if w.GenelessAtStart > 0 {
		c.Skip("precondition:geneless-random-genome")
	}
	epochs := t.Range("epochs", 0, maxEpochs)
	for e := 0; e < epochs; e++ {
		snap := StepEpoch(c, w, false, nil, c.LibSoft)
		if snap.Err != nil {
			c.Counters["abandoned.evolve-error"]++
			break
		}
	}
	var gs []*genetics.Genome
	for i := 0; i < take; i++ {
		g := w.Pop.Organisms[t.Draw("net.pick", len(w.Pop.Organisms))].Genotype
		if len(g.Genes) == 0 {
			continue
		}
		gs = append(gs, CloneGenome(g, 3000+i))
	}
	if len(gs) == 0 {
		c.Skip("precondition:no-genome-with-genes")
	}
	return w, gs
}

// BuildNetwork builds a network by hand from the reference (non-modular part only): the caller's own node objects and
// links, handed to network.NewNetwork with the all-nodes list in a caller-chosen order. perm permutes the all-nodes
// list (nil = genome order); inputs and outputs keep genome order, which is the order LoadSensors / ReadOutputs use.
func (n *RefNet) BuildNetwork(perm []int) *network.Network {
	nodes := make([]*network.NNode, len(n.Nodes))
	byId := map[int]*network.NNode{}
	for i, nd := range n.Nodes {
		x := network.NewNNode(nd.Id, network.NodeNeuronType(nd.Neuron))
		x.Id, x.NeuronType, x.ActivationType = nd.Id, network.NodeNeuronType(nd.Neuron), neatmath.NodeActivationType(nd.Act)
		nodes[i] = x
		byId[nd.Id] = x
	}
	for _, e := range n.Edges {
		in, out := byId[e.In], byId[e.Out]
		l := network.NewLink(math.Float64frombits(e.W), in, out, e.Rec)
		l.InNode, l.OutNode, l.ConnectionWeight, l.IsRecurrent = in, out, math.Float64frombits(e.W), e.Rec
		in.Outgoing = append(in.Outgoing, l)
		out.Incoming = append(out.Incoming, l)
	}
	var ins, outs []*network.NNode
	for _, id := range n.Inputs {
		ins = append(ins, byId[id])
	}
	for _, id := range n.Outputs {
		outs = append(outs, byId[id])
	}
	all := make([]*network.NNode, len(nodes))
	for i := range nodes {
		j := i
		if perm != nil {
			j = perm[i]
		}
		all[i] = nodes[j]
	}
	return network.NewNetwork(ins, outs, all, 1)
}
