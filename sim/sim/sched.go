package sim

import (
	"runtime"
	"sync/atomic"
	"time"

	"github.com/yaricom/goNEAT/v4/neat/genetics"
)

// Sched is the cooperative scheduler for the per-species reproduction goroutines of the parallel epoch executor.
// Real goroutines are parked and released one at a time at the hook points; the tape decides who runs next.
//
// Every field shared between goroutines is read and written only inside //go:norace functions using plain loads and
// stores with runtime.Gosched() spinning: no channel, mutex or atomic. The Go race detector therefore sees no
// synchronisation contributed by the scheduler and judges the library's own happens-before edges only.
type Sched struct {
	progress uint64 // hook events so far (plain counter, norace accessors)
	t        *Tape
	strategy int
	tasks    []*schedTask
	current  *schedTask
	active   bool
	// statistics (parent goroutine only, or written by the single running task)
	Switches   int
	Yields     int
	TraceHash  uint64
	MaxTasks   int
	Epochs     int
	rrNext     int
	prio       []int
	changeAt   []int
	steps      int
	yieldByTag map[string]int
	// Lazy: the worker was built against the instrumented copy (cmd/instr), in which the parent's blocking operations
	// are scheduling points ("wait:all" before wg.Wait, "wait:recv" before a channel receive). The await hook then
	// returns at once and the parent advances the tasks only as far as its own blocking operations require, so that
	// it can return while tasks are still parked (goroutines that outlive the call) exactly when the code allows it.
	Lazy bool
	last int
	// CancelAt >= 0: the k-th "offspring" yield of the epoch calls OnCancel first (fault injection inside reproduction)
	CancelAt  int
	OnCancel  func()
	offspring int
	Cancelled bool
	// IdentityMismatch counts goroutines that announced themselves (begin hook) under the id of a species other than
	// the one the parent spawned them for (e.g. a closure that reads the spawning loop's variable). They are adopted
	// under a free task slot so that the run goes on; the C16 scenario reports them.
	IdentityMismatch int
	MismatchIds      [2]int
}

// Instrumented tells whether this worker was built against the instrumented copy of the tree (set from the
// environment by the worker binary).
var Instrumented = false

type schedTask struct {
	id  int
	idx int
	// claimed is the one scheduler field touched with sync/atomic: a goroutine takes a task slot by CAS. When every
	// goroutine announces its own id (the only case on a correct tree) each slot's flag is touched by one goroutine only,
	// so no happens-before edge between goroutines arises from it.
	claimed int32
	state   int // 0 spawned, 1 parked, 2 running, 3 done
	release int
	tag     string
}

const (
	StratRandom = iota
	StratRunToCompletion
	StratRoundRobin
	StratPCT
	numStrats
)

var stratNames = []string{"random", "run-to-completion", "round-robin", "pct"}

// NewSched creates a scheduler whose decisions come from the tape.
func NewSched(t *Tape) *Sched {
	s := newSched(t)
	CurrentSched = s
	return s
}

// CurrentSched is the scheduler created last (one run at a time per worker process); StepEpoch asks it whether a
// parallel turnover that does not return is still making progress.
var CurrentSched *Sched

// Progress counts hook events (spawn, begin, yield, end, scheduling steps). Read by the hang monitor only.
//
//go:norace
func (s *Sched) Progress() uint64 { return s.progress }

//go:norace
func (s *Sched) tick() { s.progress++ }

func newSched(t *Tape) *Sched {
	return &Sched{t: t, strategy: t.Draw("sched.strategy", numStrats), yieldByTag: map[string]int{}, tasks: make([]*schedTask, 0, 4096), CancelAt: -1, last: -1}
}

func (s *Sched) StrategyName() string { return stratNames[s.strategy] }

// Hooks returns the library hooks bound to this scheduler.
func (s *Sched) Hooks() *genetics.VerifHooks {
	return &genetics.VerifHooks{Spawn: s.spawn, Begin: s.begin, End: s.end, Yield: s.yield, Await: s.await}
}

// idle is one turn of a wait loop: a few plain yields first (the common case is a hand-over within microseconds), then
// short sleeps so that dozens of parked tasks in sixteen worker processes do not burn every core while one task runs.
// time.Sleep involves no synchronisation object shared between goroutines, so it contributes no happens-before edge
// to the race detector (checked: the seeded unsynchronised read of Population.Innovations is still reported).
//
//go:norace
func idle(i int) {
	if i < 64 {
		runtime.Gosched()
		return
	}
	time.Sleep(20 * time.Microsecond)
}

//go:norace
func (s *Sched) spawn(id int) {
	s.tick()
	if !s.active {
		s.active = true
		s.tasks = s.tasks[:0]
		s.current = nil
		s.Epochs++
	}
	s.tasks = append(s.tasks, &schedTask{id: id, idx: len(s.tasks)})
}

//go:norace
func (s *Sched) find(id int) *schedTask {
	for _, t := range s.tasks {
		if t != nil && t.id == id {
			return t
		}
	}
	return nil
}

//go:norace
func (s *Sched) begin(id int) {
	s.tick()
	if !s.active {
		return
	}
	t := s.find(id)
	if t == nil || !atomic.CompareAndSwapInt32(&t.claimed, 0, 1) {
		// no free slot under this id: the goroutine is not working on the species it was spawned for
		s.IdentityMismatch++
		s.MismatchIds = [2]int{id, -1}
		t = nil
		for i := 0; t == nil && i < 200000; i++ {
			for _, c := range s.tasks {
				if c != nil && atomic.CompareAndSwapInt32(&c.claimed, 0, 1) {
					t = c
					s.MismatchIds[1] = c.id
					break
				}
			}
			if t == nil {
				idle(i)
			}
		}
		if t == nil {
			return
		}
	}
	t.tag = "begin"
	t.state = 1
	for i := 0; t.release == 0; i++ {
		idle(i)
	}
	t.release = 0
}

//go:norace
func (s *Sched) yield(tag string) {
	s.tick()
	if !s.active {
		return
	}
	t := s.current
	if t == nil || t.state != 2 {
		// not a task: the parent. Its blocking operations drive the schedule in lazy mode.
		if s.Lazy && len(tag) > 5 && tag[:5] == "wait:" {
			if tag == "wait:all" {
				for s.step() {
				}
			} else {
				s.step()
			}
		}
		return
	}
	if tag == "offspring" && s.CancelAt >= 0 {
		if s.offspring == s.CancelAt && s.OnCancel != nil {
			s.Cancelled = true
			s.OnCancel()
		}
		s.offspring++
	}
	t.tag = tag
	t.state = 1
	for i := 0; t.release == 0; i++ {
		idle(i)
	}
	t.release = 0
}

//go:norace
func (s *Sched) end(id int) {
	s.tick()
	// exactly one task runs at a time: the goroutine that ends is the current one, whatever id it announces
	t := s.current
	if t == nil || t.state != 2 {
		t = s.find(id)
	}
	if t == nil {
		return
	}
	t.state = 3
}

// quiescent reports whether no task is running and every spawned task has reached a park point.
//
//go:norace
func (s *Sched) quiescent() (allDone bool, ok bool) {
	allDone = true
	for _, t := range s.tasks {
		switch t.state {
		case 0, 2:
			return false, false
		case 1:
			allDone = false
		}
	}
	return allDone, true
}

//go:norace
func (s *Sched) parked() []int {
	var res []int
	for _, t := range s.tasks {
		if t.state == 1 {
			res = append(res, t.idx)
		}
	}
	return res
}

//go:norace
func (s *Sched) releaseTask(idx int) string {
	t := s.tasks[idx]
	tag := t.tag
	s.current = t
	t.state = 2 // marked running by the parent, so that the next quiescence test cannot see it parked
	t.release = 1
	return tag
}

//go:norace
func (s *Sched) finish() {
	s.active = false
	s.current = nil
}

// await is called by the parent goroutine before it waits for the reproduction goroutines. Eager mode: it is the
// scheduling loop, in place of blocking in WaitGroup.Wait. Lazy mode: it only prepares the strategy.
func (s *Sched) await() {
	if !s.active {
		return
	}
	n := len(s.tasks)
	if n > s.MaxTasks {
		s.MaxTasks = n
	}
	s.initStrategy(n)
	s.last = -1
	s.offspring = 0
	if s.Lazy {
		return
	}
	for s.step() {
	}
}

// step waits until every live task is parked, releases one chosen by the strategy and waits until it has parked again
// or ended. It returns false (and closes the epoch's schedule) when all tasks have ended.
func (s *Sched) step() bool {
	s.tick()
	if !s.active {
		return false
	}
	settle := func() (allDone bool) {
		for i := 0; ; i++ {
			done, ok := s.quiescent()
			if ok {
				return done
			}
			idle(i)
		}
	}
	if settle() {
		s.finish()
		return false
	}
	cands := s.parked()
	pick := s.choose(cands, s.last)
	tag := s.releaseTask(pick)
	s.Yields++
	s.yieldByTag[tag]++
	if pick != s.last {
		s.Switches++
	}
	s.TraceHash = Mix(s.TraceHash, uint64(pick), HashString(tag))
	s.last = pick
	s.steps++
	if settle() {
		s.finish()
		return false
	}
	return true
}

// Pending is the number of reproduction goroutines that have not ended although the parent has returned.
//
//go:norace
func (s *Sched) Pending() int {
	if !s.active {
		return 0
	}
	n := 0
	for _, t := range s.tasks {
		if t.state != 3 {
			n++
		}
	}
	return n
}

// Drain runs the tasks that outlived the call to their end.
func (s *Sched) Drain() {
	for s.step() {
	}
}

func (s *Sched) initStrategy(n int) {
	s.rrNext = 0
	s.steps = 0
	s.prio = s.prio[:0]
	s.changeAt = s.changeAt[:0]
	switch s.strategy {
	case StratRunToCompletion, StratPCT:
		// a random priority order of the tasks
		perm := make([]int, n)
		for i := range perm {
			perm[i] = i
		}
		for i := n - 1; i > 0; i-- {
			j := s.t.Draw("sched.perm", i+1)
			perm[i], perm[j] = perm[j], perm[i]
		}
		s.prio = make([]int, n)
		for rank, idx := range perm {
			s.prio[idx] = n - rank
		}
		if s.strategy == StratPCT {
			k := 1 + s.t.Draw("sched.pct.k", 3)
			for i := 0; i < k; i++ {
				s.changeAt = append(s.changeAt, s.t.Draw("sched.pct.at", 8*n+8))
			}
		}
	}
}

func (s *Sched) choose(cands []int, last int) int {
	switch s.strategy {
	case StratRandom:
		return cands[s.t.Draw("sched.pick", len(cands))]
	case StratRoundRobin:
		for k := 0; k < len(s.tasks); k++ {
			idx := (s.rrNext + k) % len(s.tasks)
			for _, c := range cands {
				if c == idx {
					s.rrNext = idx + 1
					return idx
				}
			}
		}
		return cands[0]
	case StratPCT:
		for _, at := range s.changeAt {
			if at == s.steps && last >= 0 {
				s.prio[last] = -s.steps // demote the task that just ran
			}
		}
		fallthrough
	case StratRunToCompletion:
		best := cands[0]
		for _, c := range cands[1:] {
			if s.prio[c] > s.prio[best] {
				best = c
			}
		}
		return best
	}
	return cands[0]
}

// YieldsByTag returns how often each yield tag was scheduled.
func (s *Sched) YieldsByTag() map[string]int { return s.yieldByTag }
