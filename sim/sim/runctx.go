package sim

import (
	"fmt"
	"runtime/debug"
	"sort"
	"strings"
)

// Violation is a property violation found in a run.
type Violation struct {
	Property  string `json:"property"`
	Invariant string `json:"invariant"` // stable signature used for shrinking and known-finding matching
	Detail    string `json:"detail"`
}

type stopRun struct{}

// RunCtx carries one simulated run: the tape, the counters (reach probes, faults fired), the distinct-state sets and
// the first violation.
type RunCtx struct {
	T        *Tape
	Prop     string
	Tier     string
	Thorough bool
	Counters map[string]int
	States   map[uint64]struct{}
	Nontriv  map[uint64]struct{}
	Ops      []string
	Sample   string
	Steps    int
	SimNanos int64 // simulated time covered (fake clock), where a clock exists
	Viol     *Violation
	Abandon  string // run abandoned for a reason that is not a verdict (precondition not met, unrelated library failure)
	Crash    string // harness trouble
	// PanicContext is appended to the detail of a library panic (scenarios that key known findings on the kind of world)
	PanicContext string
	// KnownHits are violations matched by a known finding inside the run (the run continues past them where possible)
	KnownHits []Violation
	Known     []KnownFinding
}

func NewRunCtx(t *Tape, prop, tier string) *RunCtx {
	return &RunCtx{T: t, Prop: prop, Tier: tier, Thorough: tier == "thorough", Counters: map[string]int{},
		States: map[uint64]struct{}{}, Nontriv: map[uint64]struct{}{}}
}

func (c *RunCtx) Count(name string) { c.Counters[name]++ }

func (c *RunCtx) CountN(name string, n int) { c.Counters[name] += n }

// State records a distinct state hash (capped per run).
func (c *RunCtx) State(h uint64) {
	if len(c.States) < 4096 {
		c.States[h] = struct{}{}
	}
}

// Nontrivial records a distinct non-trivial case hash.
func (c *RunCtx) Nontrivial(h uint64) {
	if len(c.Nontriv) < 4096 {
		c.Nontriv[h] = struct{}{}
	}
}

// Op appends a human readable operation to the run's trace (bounded).
func (c *RunCtx) Op(f string, a ...interface{}) {
	if len(c.Ops) < 400 {
		c.Ops = append(c.Ops, fmt.Sprintf(f, a...))
	}
}

// Fail records a violation of the run's property and unwinds the run.
func (c *RunCtx) Fail(invariant, f string, a ...interface{}) {
	v := Violation{Property: c.Prop, Invariant: invariant, Detail: fmt.Sprintf(f, a...)}
	if kf := MatchKnown(c.Known, &v); kf != nil {
		// a listed finding: note it, and stop this run without a verdict (the state is no longer trustworthy)
		c.KnownHits = append(c.KnownHits, v)
		c.Counters["known_finding."+kf.Id]++
		panic(stopRun{})
	}
	if c.Viol == nil {
		c.Viol = &v
	}
	panic(stopRun{})
}

// FailSoft is like Fail but continues the run when the violation is a known finding (used where the state stays usable).
func (c *RunCtx) FailSoft(invariant, f string, a ...interface{}) {
	v := Violation{Property: c.Prop, Invariant: invariant, Detail: fmt.Sprintf(f, a...)}
	if kf := MatchKnown(c.Known, &v); kf != nil {
		if len(c.KnownHits) < 4 {
			c.KnownHits = append(c.KnownHits, v)
		}
		c.Counters["known_finding."+kf.Id]++
		return
	}
	if c.Viol == nil {
		c.Viol = &v
	}
	panic(stopRun{})
}

// Skip abandons the run without a verdict.
func (c *RunCtx) Skip(reason string) {
	c.Abandon = reason
	c.Counters["abandoned."+reason]++
	panic(stopRun{})
}

// Lib runs library code whose normal completion the property demands: a panic inside is a violation.
func (c *RunCtx) Lib(name string, f func()) {
	defer func() {
		if r := recover(); r != nil {
			if _, ok := r.(stopRun); ok {
				panic(r)
			}
			c.Fail("panic:"+name, "library panicked in %s%s: %v\n%s", name, c.PanicContext, r, trimStack(debug.Stack()))
		}
	}()
	f()
}

// LibSoft runs library code the property does not speak about: a panic abandons the run (counted, no verdict).
func (c *RunCtx) LibSoft(name string, f func()) {
	defer func() {
		if r := recover(); r != nil {
			if _, ok := r.(stopRun); ok {
				panic(r)
			}
			c.Counters["abandoned.panic:"+name]++
			c.Abandon = fmt.Sprintf("panic in %s: %v", name, r)
			panic(stopRun{})
		}
	}()
	f()
}

func trimStack(b []byte) string {
	lines := strings.Split(string(b), "\n")
	var keep []string
	for _, l := range lines {
		if strings.Contains(l, "goNEAT") || strings.Contains(l, "gonum") {
			keep = append(keep, strings.TrimSpace(l))
		}
		if len(keep) >= 6 {
			break
		}
	}
	return strings.Join(keep, " | ")
}

// Execute runs a scenario under the context and classifies how it ended.
func (c *RunCtx) Execute(scn func(c *RunCtx)) {
	defer func() {
		if r := recover(); r != nil {
			if _, ok := r.(stopRun); ok {
				return
			}
			c.Crash = fmt.Sprintf("harness panic: %v\n%s", r, string(debug.Stack()))
		}
	}()
	scn(c)
}

// SortedCounters renders counters deterministically.
func SortedCounters(m map[string]int) []string {
	keys := make([]string, 0, len(m))
	for k := range m {
		keys = append(keys, k)
	}
	sort.Strings(keys)
	res := make([]string, len(keys))
	for i, k := range keys {
		res[i] = fmt.Sprintf("%s=%d", k, m[k])
	}
	return res
}

// KnownFinding is one entry of /verif/known_findings.json.
type KnownFinding struct {
	Id        string `json:"id"`
	Property  string `json:"property"`
	Status    string `json:"status"` // "open" (suppresses, prints KNOWN-FINDING) or "fixed" (suppresses nothing)
	Invariant string `json:"invariant"`
	// Match are substrings that must all occur in the violation detail (the specific failing input / call site)
	Match []string `json:"match"`
	What  string   `json:"what"`
	Fixed string   `json:"fixed_by,omitempty"`
}

// MatchKnown returns the open known finding matching the violation, if any.
func MatchKnown(known []KnownFinding, v *Violation) *KnownFinding {
	for i := range known {
		k := &known[i]
		if k.Status != "open" || k.Property != v.Property || k.Invariant != v.Invariant {
			continue
		}
		ok := true
		for _, m := range k.Match {
			if !strings.Contains(v.Detail, m) {
				ok = false
				break
			}
		}
		if ok {
			return k
		}
	}
	return nil
}
