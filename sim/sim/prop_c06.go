package sim

import (
	"fmt"
	"math"
	"unsafe"

	"github.com/yaricom/goNEAT/v4/neat"
	"github.com/yaricom/goNEAT/v4/neat/genetics"
	neatmath "github.com/yaricom/goNEAT/v4/neat/math"
	"github.com/yaricom/goNEAT/v4/neat/network"
)

// C06 — duplicating a genome gives an exact, independent copy.

func init() {
	Register(&Scenario{
		Prop: "C06", Run: scenarioC06, QuickRuns: 22500, ThoroughRuns: 3000000, Level: "exploration",
		Rule:       "one run = genomes taken from a seeded evolved world (disabled, recurrent, re-enabled genes, nil traits), from the shipped modular genome and from generated modular genomes are duplicated; the copy is compared field by field with the source (canonical dump except the id), searched for shared mutable objects (nodes, genes, links, traits, parameter arrays), and then a tape-chosen mutation history is applied to the copy or to the original while the other side's dump must stay bit-identical; spawning is checked as duplicate + weight perturbation. A case is one duplication with its follow-up history; non-trivial when the source carried a disabled gene, a recurrent gene, a nil trait reference or a module; distinct by genome shape hash",
		RealParts:  []string{"Genome.duplicate with the gene / node / link / trait / MIMO-gene copy constructors", "NewPopulation (spawn)", "the mutators used to probe aliasing", "the epochs that produce the source genomes"},
		StubParts:  []string{"fitness during the preparatory epochs", "reference innovation registry for the follow-up structural mutations"},
		Assumes:    []string{"genetic equality is judged on traits, nodes (id, role, activation, trait), genes (endpoints, weight, innovation and mutation number, recurrence and enabled flag, trait) and modules; derived caches (link parameter copies, phenotype pointers) are not genetic state"},
		ProbeNames: []string{"probe.source.disabled_gene", "probe.source.recurrent_gene", "probe.source.nil_trait", "probe.descendants_of_copy_mutated", "probe.source.module_link_attributes", "probe.source.modular", "probe.mutated_copy", "probe.mutated_original", "probe.spawn"},
	})
}

// sharedState looks for mutable objects reachable from both genomes.
func sharedState(a, b *genetics.Genome) string {
	nodes := map[*network.NNode]bool{}
	links := map[*network.Link]bool{}
	genes := map[*genetics.Gene]bool{}
	traits := map[*neat.Trait]bool{}
	arrays := map[uintptr]string{}
	addArr := func(p []float64, what string) {
		if len(p) > 0 {
			arrays[uintptr(unsafe.Pointer(&p[0]))] = what
		}
	}
	for _, t := range a.Traits {
		traits[t] = true
		addArr(t.Params, fmt.Sprintf("trait %d params", t.Id))
	}
	for _, n := range a.Nodes {
		nodes[n] = true
		addArr(n.Params, fmt.Sprintf("node %d params", n.Id))
	}
	for _, g := range a.Genes {
		genes[g] = true
		links[g.Link] = true
		addArr(g.Link.Params, fmt.Sprintf("gene #%d link params", g.InnovationNum))
	}
	for _, cg := range a.ControlGenes {
		nodes[cg.ControlNode] = true
		addArr(cg.ControlNode.Params, fmt.Sprintf("control node %d params", cg.ControlNode.Id))
		for _, l := range cg.ControlNode.Incoming {
			links[l] = true
			addArr(l.Params, fmt.Sprintf("module %d input link params", cg.ControlNode.Id))
		}
		for _, l := range cg.ControlNode.Outgoing {
			links[l] = true
			addArr(l.Params, fmt.Sprintf("module %d output link params", cg.ControlNode.Id))
		}
	}
	chkArr := func(p []float64, what string) string {
		if len(p) > 0 {
			if w, ok := arrays[uintptr(unsafe.Pointer(&p[0]))]; ok {
				return fmt.Sprintf("%s of the copy shares its backing array with %s of the source", what, w)
			}
		}
		return ""
	}
	for _, t := range b.Traits {
		if traits[t] {
			return fmt.Sprintf("trait %d object is shared", t.Id)
		}
		if s := chkArr(t.Params, fmt.Sprintf("trait %d params", t.Id)); s != "" {
			return s
		}
	}
	for _, n := range b.Nodes {
		if nodes[n] {
			return fmt.Sprintf("node %d object is shared", n.Id)
		}
		if n.Trait != nil && traits[n.Trait] {
			return fmt.Sprintf("node %d of the copy points to a trait object of the source", n.Id)
		}
		if s := chkArr(n.Params, fmt.Sprintf("node %d params", n.Id)); s != "" {
			return s
		}
	}
	for _, g := range b.Genes {
		if genes[g] {
			return fmt.Sprintf("gene #%d object is shared", g.InnovationNum)
		}
		if links[g.Link] {
			return fmt.Sprintf("gene #%d link object is shared", g.InnovationNum)
		}
		if nodes[g.Link.InNode] || nodes[g.Link.OutNode] {
			return fmt.Sprintf("gene #%d of the copy points to a node object of the source", g.InnovationNum)
		}
		if g.Link.Trait != nil && traits[g.Link.Trait] {
			return fmt.Sprintf("gene #%d of the copy points to a trait object of the source", g.InnovationNum)
		}
		if s := chkArr(g.Link.Params, fmt.Sprintf("gene #%d link params", g.InnovationNum)); s != "" {
			return s
		}
	}
	for _, cg := range b.ControlGenes {
		if nodes[cg.ControlNode] {
			return fmt.Sprintf("control node %d object is shared", cg.ControlNode.Id)
		}
		if cg.ControlNode.Trait != nil && traits[cg.ControlNode.Trait] {
			return fmt.Sprintf("control node %d of the copy points to a trait object of the source", cg.ControlNode.Id)
		}
		if s := chkArr(cg.ControlNode.Params, fmt.Sprintf("control node %d params", cg.ControlNode.Id)); s != "" {
			return s
		}
		for _, l := range cg.ControlNode.Incoming {
			if links[l] || nodes[l.InNode] {
				return fmt.Sprintf("module %d input link/node is shared", cg.ControlNode.Id)
			}
			if l.Trait != nil && traits[l.Trait] {
				return fmt.Sprintf("an input link of module %d of the copy points to a trait object of the source", cg.ControlNode.Id)
			}
			if s := chkArr(l.Params, fmt.Sprintf("module %d input link params", cg.ControlNode.Id)); s != "" {
				return s
			}
		}
		for _, l := range cg.ControlNode.Outgoing {
			if links[l] || nodes[l.OutNode] {
				return fmt.Sprintf("module %d output link/node is shared", cg.ControlNode.Id)
			}
			if l.Trait != nil && traits[l.Trait] {
				return fmt.Sprintf("an output link of module %d of the copy points to a trait object of the source", cg.ControlNode.Id)
			}
			if s := chkArr(l.Params, fmt.Sprintf("module %d output link params", cg.ControlNode.Id)); s != "" {
				return s
			}
		}
	}
	return ""
}

// moduleLinkDiff compares what the canonical record leaves out of a module's links: recurrence label and trait.
func moduleLinkDiff(a, b *genetics.Genome) string {
	if len(a.ControlGenes) != len(b.ControlGenes) {
		return fmt.Sprintf("%d modules vs %d", len(a.ControlGenes), len(b.ControlGenes))
	}
	for i, ca := range a.ControlGenes {
		cb := b.ControlGenes[i]
		for _, side := range []struct {
			n    string
			x, y []*network.Link
		}{{"incoming", ca.ControlNode.Incoming, cb.ControlNode.Incoming}, {"outgoing", ca.ControlNode.Outgoing, cb.ControlNode.Outgoing}} {
			if len(side.x) != len(side.y) {
				return fmt.Sprintf("module %d has %d %s links, the copy %d", ca.ControlNode.Id, len(side.x), side.n, len(side.y))
			}
			for k := range side.x {
				lx, ly := side.x[k], side.y[k]
				if lx.IsRecurrent != ly.IsRecurrent {
					return fmt.Sprintf("module %d %s link %d: recurrence label %t, the copy has %t", ca.ControlNode.Id, side.n, k, lx.IsRecurrent, ly.IsRecurrent)
				}
				if traitId(lx.Trait) != traitId(ly.Trait) {
					return fmt.Sprintf("module %d %s link %d: trait %d, the copy has %d", ca.ControlNode.Id, side.n, k, traitId(lx.Trait), traitId(ly.Trait))
				}
			}
		}
	}
	return ""
}

// BuildModularGenome adds 1..2 modules to a hand-built genome with enough hidden nodes.
func BuildModularGenome(t *Tape) *genetics.Genome {
	g := BuildGenome(t, GenomeSpec{AllowDisabled: true, MaxHidden: 4})
	var hid []*network.NNode
	for _, n := range g.Nodes {
		if n.NeuronType == network.HiddenNeuron {
			hid = append(hid, n)
		}
	}
	// add dedicated module io nodes
	nextId := g.Nodes[len(g.Nodes)-1].Id + 1
	var innov int64 = 1
	if len(g.Genes) > 0 {
		innov = g.Genes[len(g.Genes)-1].InnovationNum + 1
	}
	nMods := t.Range("nMods", 1, 3)
	nodes := append([]*network.NNode(nil), g.Nodes...)
	var mods []*genetics.MIMOControlGene
	acts := []neatmath.NodeActivationType{neatmath.MultiplyModuleActivation, neatmath.MaxModuleActivation, neatmath.MinModuleActivation}
	var ioAll [][]*network.NNode
	for m := 0; m < nMods; m++ {
		nin := t.Range("modIn", 1, 3)
		var io []*network.NNode
		for i := 0; i < nin+1; i++ {
			nd := network.NewNNode(nextId, network.HiddenNeuron)
			nextId++
			nodes = append(nodes, nd)
			io = append(io, nd)
		}
		ioAll = append(ioAll, io)
	}
	// wire the modules into the rest of the network: genes from existing nodes into module inputs and from module
	// outputs to output (or hidden) neurons, so that the modules take part in activation at some depth
	genes := append([]*genetics.Gene(nil), g.Genes...)
	var srcs, dsts []*network.NNode
	for _, n := range g.Nodes {
		if n.NeuronType != network.OutputNeuron {
			srcs = append(srcs, n)
		}
		if n.NeuronType == network.OutputNeuron || n.NeuronType == network.HiddenNeuron {
			dsts = append(dsts, n)
		}
	}
	for _, io := range ioAll {
		for _, in := range io[:len(io)-1] {
			if len(srcs) > 0 && t.Chance("modWireIn", 2, 3) {
				w := math.Round((t.Float("modW")*4-2)*1000) / 1000
				gn := genetics.NewGene(w, srcs[t.Draw("modSrc", len(srcs))], in, false, innov, w)
				genes = append(genes, gn)
				innov++
			}
		}
		if len(dsts) > 0 && t.Chance("modWireOut", 2, 3) {
			w := math.Round((t.Float("modW")*4-2)*1000) / 1000
			gn := genetics.NewGene(w, io[len(io)-1], dsts[t.Draw("modDst", len(dsts))], false, innov, w)
			genes = append(genes, gn)
			innov++
		}
	}
	for m := 0; m < nMods; m++ {
		io := ioAll[m]
		cn := network.NewNNode(nextId, network.HiddenNeuron)
		nextId++
		cn.ActivationType = acts[t.Draw("modAct", len(acts))]
		if t.Chance("modTrait", 1, 3) && len(g.Traits) > 0 {
			cn.Trait = g.Traits[0]
		}
		for _, in := range io[:len(io)-1] {
			cn.AddIncoming(in, 1.0)
		}
		// modules may share inputs: a node that feeds an earlier module (or an ordinary hidden node) also feeds this one
		if m > 0 && t.Chance("modSharedInput", 1, 2) {
			cn.AddIncoming(ioAll[0][0], 1.0)
		}
		if len(hid) > 0 && t.Chance("modHiddenInput", 1, 3) {
			cn.AddIncoming(hid[t.Draw("modHidden", len(hid))], 1.0)
		}
		// a module may list one node on both sides (its output fed back as one of its inputs)
		if t.Chance("modFeedback", 1, 4) {
			cn.AddIncoming(io[len(io)-1], 1.0)
		}
		cn.AddOutgoing(io[len(io)-1], 1.0)
		mg := genetics.NewMIMOGene(cn, innov, t.Float("modMut"), !t.Chance("modDisabled", 1, 5))
		innov++
		mods = append(mods, mg)
	}
	return genetics.NewModularGenome(g.Id, g.Traits, nodes, genes, mods)
}

func scenarioC06(c *RunCtx) {
	t := c.T
	maxPop, maxEpochs, maxMut := 16, 8, 12
	if c.Thorough {
		maxPop, maxEpochs, maxMut = 40, 25, 40
	}
	spec := WorldSpec{
		Prof:         OptProfile{MinPop: 3, MaxPop: maxPop, Parallel: 0, Structural: 1, ActivationSwarm: true},
		Genome:       GenomeSpec{AllowDisabled: true, MaxHidden: 3, ActSwarm: true},
		AllowShipped: true,
	}
	var w *World
	c.LibSoft("construct", func() { w = NewWorld(t, spec) })
	if w.ConstructErr != nil {
		c.Skip("constructor-error")
	}
	if w.Opts.MutateToggleEnableProb < 0.2 {
		w.Opts.MutateToggleEnableProb = 0.3
	}
	c.Sample = w.Describe()
	c.Op("world: %s", w.Describe())

	// spawn = duplicate + weight perturbation
	if w.Kind != StartReadBack && w.Start != nil {
		c.Count("probe.spawn")
		want := Canon(w.Start).TopologyDump()
		for i, o := range w.Pop.Organisms {
			r := Canon(o.Genotype)
			if got := r.TopologyDump(); got != want {
				c.Fail("spawn:topology", "organism %d spawned from the start genome differs from it in more than weights and mutation numbers: %s\nstart: %s\nspawn: %s", i, FirstDiff(want, got), Canon(w.Start).Pretty(), r.Pretty())
			}
			for _, g := range r.Genes {
				if g.W != g.Mut {
					c.Fail("spawn:mutation-number", "organism %d gene #%d: mutation number %v does not mirror the weight %v", i, g.Innov, f64(g.Mut), f64(g.W))
				}
				if math.IsNaN(f64(g.W)) {
					c.Fail("spawn:nan-weight", "organism %d gene #%d has a NaN weight", i, g.Innov)
				}
			}
			if s := sharedState(w.Start, o.Genotype); s != "" {
				c.Fail("spawn:shared-state", "organism %d shares state with the start genome: %s", i, s)
			}
		}
	}

	// A genome whose trait ids are 1..n in another order than the trait list (1,3,2 as in the repository's own test
	// genome), nodes and genes carrying those traits: duplicated directly, nothing else is done with it (crossover indexes
	// traits by id offset, which C01 and C04 exclude by asking for consecutive ids; duplication must look a trait up by
	// its id).
	if t.Chance("permutedTraitIds", 1, 4) {
		src := BuildGenome(t, GenomeSpec{AllowDisabled: true, MaxHidden: 3, ActSwarm: true, PermuteTraitIds: true})
		srcRec := Canon(src)
		var cp *genetics.Genome
		var derr error
		c.Lib("duplicate", func() { cp, derr = genetics.VerifDuplicate(src, src.Id+1000) })
		c.Steps++
		if derr != nil {
			c.Fail("duplicate:error", "duplicate of a genome with trait ids out of list order returned %v\n%s", derr, srcRec.Pretty())
		}
		if d1, d2 := srcRec.Dump(false), Canon(cp).Dump(false); d1 != d2 {
			c.Fail("duplicate:differs", "the duplicate of a genome whose trait ids are not in list order differs from the original: %s\noriginal: %s\ncopy: %s", FirstDiff(d1, d2), srcRec.Pretty(), Canon(cp).Pretty())
		}
		if d1, d2 := srcRec.Dump(true), Canon(src).Dump(true); d1 != d2 {
			c.Fail("duplicate:source-modified", "duplicating changed the source: %s", FirstDiff(d1, d2))
		}
		if sh := sharedState(src, cp); sh != "" {
			c.Fail("duplicate:shared-state", "the duplicate shares state with the original: %s", sh)
		}
		c.Count("probe.source.trait_ids_out_of_list_order")
	}

	env := NewOpsEnvFromWorld(c, w, t.Range("epochs", 0, maxEpochs), t.Range("pool", 1, 4))
	// modular sources
	switch t.Pick("modular", 3, 1, 1) {
	case 1:
		g, err := LoadShipped("test_seed_genome.yml")
		if err == nil {
			env.Pool = append(env.Pool, g)
			env.Fit = append(env.Fit, 1)
		}
	case 2:
		env.Pool = append(env.Pool, BuildModularGenome(t))
		env.Fit = append(env.Fit, 1)
	}
	nDup := t.Range("dups", 1, 6)
	muts := []int{OpLinkWeights, OpLinkWeightsCold, OpRandomTrait, OpLinkTrait, OpNodeTrait, OpToggleEnable, OpReEnable, OpAllNonstructural, OpAddNode, OpAddLink, OpConnectSensors}
	for k := 0; k < nDup; k++ {
		a := t.Draw("dup.src", len(env.Pool))
		src := env.Pool[a]
		srcRec := Canon(src)
		modular := len(src.ControlGenes) > 0
		if modular && t.Chance("moduleLinkAttrs", 1, 2) {
			// the links of a control node are ordinary links: they may carry the recurrence label and a trait (the public
			// constructors allow it; no reader produces it). A copy must keep them.
			for _, cg := range src.ControlGenes {
				for _, l := range append(append([]*network.Link(nil), cg.ControlNode.Incoming...), cg.ControlNode.Outgoing...) {
					if t.Chance("moduleLink.rec", 1, 3) {
						l.IsRecurrent = true
					}
					if len(src.Traits) > 0 && t.Chance("moduleLink.trait", 1, 3) {
						l.Trait = src.Traits[t.Draw("moduleLink.traitIdx", len(src.Traits))]
					}
				}
			}
			srcRec = Canon(src)
			c.Count("probe.source.module_link_attributes")
		}
		res := env.Apply(OpDuplicate, a, 0, c.Lib)
		c.Steps++
		c.Op("%s", res.Describe())
		if res.Err != nil {
			c.Fail("duplicate-error", "duplicate returned an error: %v\nsource: %s", res.Err, srcRec.Pretty())
		}
		cp := res.Child
		cpRec := Canon(cp)
		if d1, d2 := srcRec.Dump(false), cpRec.Dump(false); d1 != d2 {
			c.Fail("duplicate:not-equal", "the duplicate differs from its source: %s\nsource: %s\ncopy:   %s", FirstDiff(d1, d2), srcRec.Pretty(), cpRec.Pretty())
		}
		if d1, d2 := srcRec.Dump(true), res.AfterA.Dump(true); d1 != d2 {
			c.Fail("duplicate:source-modified", "duplicating changed the source: %s", FirstDiff(d1, d2))
		}
		if s := sharedState(src, cp); s != "" {
			c.Fail("duplicate:shared-state", "%s\nsource: %s", s, srcRec.Pretty())
		}
		if d := moduleLinkDiff(src, cp); d != "" {
			c.Fail("duplicate:not-equal", "the duplicate differs from its source in a module link: %s\nsource: %s", d, srcRec.Pretty())
		}
		// NodeWithId of the copy answers with the copy's own nodes
		for _, n := range cp.Nodes {
			if cp.NodeWithId(n.Id) != n {
				c.Fail("duplicate:node-lookup", "NodeWithId(%d) of the copy does not return the copy's node", n.Id)
			}
		}
		nilTrait := false
		for _, g := range srcRec.Genes {
			if !g.En {
				c.Count("probe.source.disabled_gene")
			}
			if g.Rec {
				c.Count("probe.source.recurrent_gene")
			}
			if g.TraitId == 0 {
				nilTrait = true
			}
		}
		if nilTrait {
			c.Count("probe.source.nil_trait")
		}
		if modular {
			c.Count("probe.source.modular")
		}
		// mutate one side, the other must not move
		mutCopy := !t.Chance("mutate.original", 1, 3)
		victim, other, otherRec := cp, src, srcRec
		if !mutCopy {
			victim, other, otherRec = src, cp, cpRec
			c.Count("probe.mutated_original")
		} else {
			c.Count("probe.mutated_copy")
		}
		vi := env.Adopt(victim, 1, 64)
		if !mutCopy {
			vi = a
		}
		nm := t.Range("mutations", 1, maxMut)
		for i := 0; i < nm; i++ {
			op := muts[t.Draw("mut.op", len(muts))]
			if modular && (op == OpAddNode || op == OpAddLink || op == OpConnectSensors) {
				op = OpLinkWeights // structural mutators are specified for non-modular genomes
			}
			r := env.Apply(op, vi, 0, c.LibSoft)
			c.Op("%s", r.Describe())
			if now := Canon(other); now.Dump(true) != otherRec.Dump(true) {
				side := "source"
				if !mutCopy {
					side = "copy"
				}
				c.Fail("duplicate:aliasing", "%s applied to the %s changed the %s: %s\nbefore: %s\nafter:  %s", OpNames[op], map[bool]string{true: "copy", false: "source"}[mutCopy], side, FirstDiff(otherRec.Dump(true), now.Dump(true)), otherRec.Pretty(), now.Pretty())
			}
		}
		// descendants of the copy: the copy is mated with another genome and the child is mutated; whatever that does to
		// the copy's lineage, the source took no part in it and must not move (only when the source was not the side
		// mutated above, so that its record is still the reference)
		if mutCopy && len(env.Pool) >= 2 && t.Chance("descendants", 1, 3) {
			poolLen := len(env.Pool)
			ci := env.Adopt(cp, 1, 64)
			bi := t.Draw("desc.mate", len(env.Pool))
			if bi != ci && bi != a && env.Pool[bi] != src && (len(env.Pool[bi].ControlGenes) > 0) == modular && len(env.Pool[bi].Traits) == len(cp.Traits) {
				mop := []int{OpMateMultipoint, OpMateMultipointAvg, OpMateSinglePoint}[t.Draw("desc.op", 3)]
				r := env.Apply(mop, ci, bi, c.LibSoft)
				c.Op("%s", r.Describe())
				if r.Child != nil && r.Err == nil && len(r.Child.Genes) > 0 {
					chi := env.Adopt(r.Child, 1, 64)
					for i := t.Range("desc.mutations", 1, 4); i > 0; i-- {
						op := []int{OpNodeTrait, OpRandomTrait, OpLinkTrait, OpLinkWeights, OpToggleEnable}[t.Draw("desc.mut", 5)]
						r2 := env.Apply(op, chi, 0, c.LibSoft)
						c.Op("%s", r2.Describe())
					}
					c.Count("probe.descendants_of_copy_mutated")
					if now := Canon(src); now.Dump(true) != srcRec.Dump(true) {
						c.Fail("duplicate:aliasing", "mutating a child of the copy (copy mated with another genome by %s) changed the source: %s\nbefore: %s\nafter:  %s", OpNames[mop], FirstDiff(srcRec.Dump(true), now.Dump(true)), srcRec.Pretty(), now.Pretty())
					}
				}
			}
			// the copy and its descendants leave the operand pool again (a child of a modular crossover is not a source the
			// property speaks about: modular genomes are covered for duplication and expression only)
			if len(env.Pool) > poolLen {
				env.Pool, env.Fit = env.Pool[:poolLen], env.Fit[:poolLen]
			}
		}
		h := srcRec.ShapeHash()
		c.State(h)
		interesting := modular || nilTrait
		for _, g := range srcRec.Genes {
			if !g.En || g.Rec {
				interesting = true
			}
		}
		if interesting {
			c.Nontrivial(h)
		}
	}
}
