package sim

import (
	"encoding/json"
	"fmt"
	"io"
	"os"
	"sort"
	"sync/atomic"
	"time"
)

// Job is what the orchestrator asks a worker process to do.
type Job struct {
	Mode      string         `json:"mode"` // run | replay | shrink
	Prop      string         `json:"prop"`
	Tier      string         `json:"tier"`
	Seed      uint64         `json:"seed"`
	From      int            `json:"from"`
	To        int            `json:"to"`
	Stride    int            `json:"stride"`
	Tape      []uint32       `json:"tape,omitempty"`
	Want      *Violation     `json:"want,omitempty"` // shrink: the signature to preserve
	BudgetMs  int            `json:"budget_ms,omitempty"`
	Known     []KnownFinding `json:"known,omitempty"`
	Announce  bool           `json:"announce,omitempty"` // print a start line per run (crash attribution)
	Trace     bool           `json:"trace,omitempty"`
	SpillPath string         `json:"spill_path,omitempty"`
	// Procs is the GOMAXPROCS of the worker process (0 = default); not part of the job itself
	Procs int `json:"-"`
}

// Found is a violation with everything needed to replay it.
type Found struct {
	Type      string    `json:"type"` // "violation"
	Idx       int       `json:"idx"`
	RunSeed   uint64    `json:"run_seed"`
	Violation Violation `json:"violation"`
	Tape      []uint32  `json:"tape"`
	Ops       []string  `json:"ops,omitempty"`
	Sample    string    `json:"sample,omitempty"`
	Counters  []string  `json:"counters,omitempty"`
	Shrunk    bool      `json:"shrunk,omitempty"`
	ShrinkTry int       `json:"shrink_tries,omitempty"`
}

// Summary is a worker's aggregate over its runs.
type Summary struct {
	Type      string         `json:"type"` // "summary"
	Runs      int            `json:"runs"`
	Steps     int            `json:"steps"`
	Abandoned int            `json:"abandoned"`
	TapeLen   int            `json:"tape_len"`
	SimNanos  int64          `json:"sim_nanos"`
	Counters  map[string]int `json:"counters"`
	States    []uint64       `json:"states"`
	Nontriv   []uint64       `json:"nontrivial"`
	Samples   []string       `json:"samples"`
	KnownHits []Violation    `json:"known_hits,omitempty"`
	Crash     string         `json:"crash,omitempty"`
	WallMs    int64          `json:"wall_ms"`
}

func emit(w io.Writer, v interface{}) {
	b, _ := json.Marshal(v)
	fmt.Fprintf(w, "%s\n", b)
}

// RunStartedAt holds the wall-clock start (unix nanos) of the run in progress, 0 when idle; read by the watchdog only.
var RunStartedAt atomic.Int64

// RunOne executes one run of a scenario on the given tape.
func RunOne(scn *Scenario, t *Tape, job *Job) *RunCtx {
	RunStartedAt.Store(time.Now().UnixNano())
	defer RunStartedAt.Store(0)
	c := NewRunCtx(t, job.Prop, job.Tier)
	c.Known = job.Known
	c.Execute(scn.Run)
	return c
}

// RunJob is the worker entry point. exec wraps the execution of a run (the synctest build wraps it in a bubble
// where the scenario asks for a fake clock).
func RunJob(job *Job, out io.Writer) int {
	scn := Scenarios[job.Prop]
	if scn == nil {
		emit(out, map[string]string{"type": "error", "error": "unknown property " + job.Prop})
		return 2
	}
	QuietLogs()
	switch job.Mode {
	case "run":
		return runRange(scn, job, out)
	case "replay":
		t := NewReplayTape(job.Tape)
		var trace []string
		if job.Trace {
			t.Trace = &trace
		}
		c := RunOne(scn, t, job)
		if c.Crash != "" {
			emit(out, map[string]string{"type": "error", "error": c.Crash})
			return 2
		}
		if c.Viol != nil {
			emit(out, Found{Type: "violation", Violation: *c.Viol, Tape: t.Used(), Ops: c.Ops, Sample: c.Sample, Counters: SortedCounters(c.Counters)})
			if job.Trace {
				emit(out, map[string]interface{}{"type": "trace", "draws": trace})
			}
			return 1
		}
		emit(out, map[string]interface{}{"type": "clean", "abandon": c.Abandon, "known_hits": c.KnownHits, "counters": SortedCounters(c.Counters), "ops": c.Ops})
		return 0
	case "shrink":
		return shrinkJob(scn, job, out)
	case "c17chain":
		return C17ChainJob(job, out)
	case "tape":
		// record the tape of run job.From; values are spilled to job.SpillPath as they are drawn so that a crashing
		// run still leaves its tape behind
		t := NewRecordTape(RunSeed(job.Seed, job.Prop, job.From))
		if job.SpillPath != "" {
			if f, err := os.Create(job.SpillPath); err == nil {
				t.Spill = f
				defer f.Close()
			}
		}
		c := RunOne(scn, t, job)
		emit(out, map[string]interface{}{"type": "tape", "tape": t.Used(), "ops": c.Ops, "sample": c.Sample})
		return 0
	}
	return 2
}

func runRange(scn *Scenario, job *Job, out io.Writer) int {
	start := time.Now()
	sum := Summary{Type: "summary", Counters: map[string]int{}}
	states := map[uint64]struct{}{}
	nontriv := map[uint64]struct{}{}
	stride := job.Stride
	if stride <= 0 {
		stride = 1
	}
	code := 0
	for idx := job.From; idx < job.To; idx += stride {
		if job.BudgetMs > 0 && time.Since(start) > time.Duration(job.BudgetMs)*time.Millisecond {
			sum.Counters["budget.stopped_early"]++
			break
		}
		if job.Announce {
			emit(out, map[string]interface{}{"type": "start", "idx": idx})
			if f, ok := out.(*os.File); ok {
				_ = f.Sync()
			}
		}
		rs := RunSeed(job.Seed, job.Prop, idx)
		t := NewRecordTape(rs)
		c := RunOne(scn, t, job)
		sum.Runs++
		sum.Steps += c.Steps
		sum.TapeLen += len(t.Vals)
		sum.SimNanos += c.SimNanos
		for k, v := range c.Counters {
			sum.Counters[k] += v
		}
		for h := range c.States {
			if len(states) < 100000 {
				states[h] = struct{}{}
			}
		}
		for h := range c.Nontriv {
			if len(nontriv) < 100000 {
				nontriv[h] = struct{}{}
			}
		}
		if c.Abandon != "" {
			sum.Abandoned++
		}
		if len(sum.Samples) < 3 && c.Sample != "" {
			sum.Samples = append(sum.Samples, fmt.Sprintf("run %d: %s", idx, c.Sample))
		}
		for _, kh := range c.KnownHits {
			if len(sum.KnownHits) < 5 {
				sum.KnownHits = append(sum.KnownHits, kh)
			}
		}
		if c.Crash != "" {
			sum.Crash = fmt.Sprintf("run %d: %s", idx, c.Crash)
			code = 2
			break
		}
		if c.Viol != nil {
			emit(out, Found{Type: "violation", Idx: idx, RunSeed: rs, Violation: *c.Viol, Tape: t.Used(), Ops: c.Ops, Sample: c.Sample, Counters: SortedCounters(c.Counters)})
			code = 1
			break
		}
	}
	for h := range states {
		sum.States = append(sum.States, h)
	}
	for h := range nontriv {
		sum.Nontriv = append(sum.Nontriv, h)
	}
	sort.Slice(sum.States, func(i, j int) bool { return sum.States[i] < sum.States[j] })
	sort.Slice(sum.Nontriv, func(i, j int) bool { return sum.Nontriv[i] < sum.Nontriv[j] })
	sum.WallMs = time.Since(start).Milliseconds()
	emit(out, sum)
	return code
}

// sameSignature decides whether a candidate run reproduces the violation being minimised.
func sameSignature(c *RunCtx, want *Violation) bool {
	return c.Viol != nil && c.Viol.Property == want.Property && c.Viol.Invariant == want.Invariant
}

// shrinkJob minimises a failing tape in-process: delete blocks, zero values, halve values; keep a candidate iff the
// same (property, invariant) signature reappears.
func shrinkJob(scn *Scenario, job *Job, out io.Writer) int {
	budget := time.Duration(job.BudgetMs) * time.Millisecond
	if budget <= 0 {
		budget = 60 * time.Second
	}
	start := time.Now()
	tries := 0
	best := append([]uint32(nil), job.Tape...)
	try := func(cand []uint32) (*RunCtx, bool) {
		tries++
		t := NewReplayTape(cand)
		c := RunOne(scn, t, job)
		if sameSignature(c, job.Want) {
			// the run may have consumed less than the candidate: keep only what was used
			used := t.Used()
			best = append([]uint32(nil), used...)
			return c, true
		}
		return c, false
	}
	c0, ok := try(best)
	if !ok {
		emit(out, map[string]interface{}{"type": "error", "error": "shrink: the original tape does not reproduce the violation", "got": c0.Viol})
		return 2
	}
	last := c0
	expired := func() bool { return time.Since(start) > budget || tries > 1500 }
	improved := true
	for improved && !expired() {
		improved = false
		// 1. delete blocks
		for size := len(best) / 2; size >= 1 && !expired(); size /= 2 {
			for i := 0; i+size <= len(best) && !expired(); {
				cand := append(append([]uint32(nil), best[:i]...), best[i+size:]...)
				if c, ok := try(cand); ok {
					last = c
					improved = true
				} else {
					i += size
				}
			}
		}
		// 2. zero, then halve, single values
		for i := 0; i < len(best) && !expired(); i++ {
			if best[i] == 0 {
				continue
			}
			cand := append([]uint32(nil), best...)
			cand[i] = 0
			if c, ok := try(cand); ok {
				last = c
				improved = true
				continue
			}
			for v := best[i] / 2; v > 0 && !expired(); v /= 2 {
				cand := append([]uint32(nil), best...)
				if i >= len(cand) {
					break
				}
				cand[i] = v
				if c, ok := try(cand); ok {
					last = c
					improved = true
				} else {
					break
				}
			}
		}
	}
	// trailing zeros carry no information
	for len(best) > 0 && best[len(best)-1] == 0 {
		best = best[:len(best)-1]
	}
	t := NewReplayTape(best)
	c := RunOne(scn, t, job)
	if !sameSignature(c, job.Want) {
		// should not happen (dropping trailing zeros is an identity in replay mode); fall back to the last good run
		c = last
	}
	emit(out, Found{Type: "violation", Violation: *c.Viol, Tape: best, Ops: c.Ops, Sample: c.Sample, Counters: SortedCounters(c.Counters), Shrunk: true, ShrinkTry: tries})
	return 1
}
