// Package sim holds the deterministic simulation harness for goNEAT: the choice tape, the world builder, the seams
// (library RNG, simulated disk, cooperative scheduler), the reference-model oracles and the per-property scenarios.
package sim

import (
	"fmt"
	"io"
	"math"
)

// Tape is the single source of every harness decision. In record mode values come from a splitmix64 PRNG and are
// appended; in replay mode they are read back (past the end, or out of range: 0). 0 is always the simplest choice.
type Tape struct {
	Vals   []uint32
	pos    int
	replay bool
	state  uint64
	// Trace, when non-nil, receives a human readable line per draw (never draws, never reads a clock)
	Trace *[]string
	// Spill, when non-nil, receives every recorded value at once, so that the tape of a run that crashes the process
	// (stack overflow) can still be recovered
	Spill io.Writer
}

func splitmix(x *uint64) uint64 {
	*x += 0x9E3779B97F4A7C15
	z := *x
	z = (z ^ (z >> 30)) * 0xBF58476D1CE4E5B9
	z = (z ^ (z >> 27)) * 0x94D049BB133111EB
	return z ^ (z >> 31)
}

// Mix hashes several integers into one seed.
func Mix(vals ...uint64) uint64 {
	h := uint64(0x243F6A8885A308D3)
	for _, v := range vals {
		h ^= v
		h = splitmix(&h)
	}
	return h
}

func NewRecordTape(seed uint64) *Tape { return &Tape{state: seed} }

func NewReplayTape(vals []uint32) *Tape {
	cp := make([]uint32, len(vals))
	copy(cp, vals)
	return &Tape{Vals: cp, replay: true}
}

// Used returns the prefix of the tape consumed so far.
func (t *Tape) Used() []uint32 {
	if t.pos > len(t.Vals) {
		return t.Vals
	}
	return t.Vals[:t.pos]
}

func (t *Tape) Pos() int { return t.pos }

// Slice returns a copy of the values drawn between two positions (past the end of a replayed tape: zeros), so that
// a part of the run can be re-executed on exactly the same choices.
func (t *Tape) Slice(from, to int) []uint32 {
	res := make([]uint32, 0, to-from)
	for i := from; i < to; i++ {
		if i < len(t.Vals) {
			res = append(res, t.Vals[i])
		} else {
			res = append(res, 0)
		}
	}
	return res
}

// Draw returns an int in [0,n). n <= 1 consumes nothing.
func (t *Tape) Draw(label string, n int) int {
	if n <= 1 {
		return 0
	}
	var v uint32
	if t.replay {
		if t.pos < len(t.Vals) {
			v = t.Vals[t.pos]
			if int64(v) >= int64(n) {
				v = 0
			}
		}
		t.pos++
	} else {
		v = uint32(splitmix(&t.state) % uint64(n))
		t.Vals = append(t.Vals, v)
		t.pos++
		if t.Spill != nil {
			fmt.Fprintf(t.Spill, "%d\n", v)
		}
	}
	if t.Trace != nil {
		*t.Trace = append(*t.Trace, fmt.Sprintf("%s=%d/%d", label, v, n))
	}
	return int(v)
}

// Chance is true with probability num/den; the tape value 0 means false.
func (t *Tape) Chance(label string, num, den int) bool {
	if num <= 0 {
		return false
	}
	return t.Draw(label, den) >= den-num
}

// Float returns a float in [0,1) with 24 bits of resolution; tape value 0 gives 0.
func (t *Tape) Float(label string) float64 {
	return float64(t.Draw(label, 1<<24)) / float64(1<<24)
}

// Range returns an int in [lo,hi]; tape value 0 gives lo.
func (t *Tape) Range(label string, lo, hi int) int {
	if hi <= lo {
		return lo
	}
	return lo + t.Draw(label, hi-lo+1)
}

// FloatRange returns a float in [lo,hi); tape value 0 gives lo.
func (t *Tape) FloatRange(label string, lo, hi float64) float64 {
	return lo + (hi-lo)*t.Float(label)
}

// Pick returns an index weighted by w; index 0 should be the simplest alternative.
func (t *Tape) Pick(label string, w ...int) int {
	total := 0
	for _, x := range w {
		total += x
	}
	v := t.Draw(label, total)
	for i, x := range w {
		if v < x {
			return i
		}
		v -= x
	}
	return 0
}

// SubRNG is a small deterministic PRNG for bulk values (fitness landscapes, input vectors) seeded from one tape draw,
// so that bulk data does not bloat the tape.
type SubRNG struct{ s uint64 }

func (t *Tape) Sub(label string) *SubRNG {
	return &SubRNG{s: uint64(t.Draw(label, 1<<30))*0x9E3779B97F4A7C15 + 1}
}

func NewSubRNG(seed uint64) *SubRNG { return &SubRNG{s: seed} }

func (r *SubRNG) U64() uint64 { return splitmix(&r.s) }

func (r *SubRNG) Float() float64 { return float64(r.U64()>>11) / float64(1<<53) }

func (r *SubRNG) Intn(n int) int {
	if n <= 1 {
		return 0
	}
	return int(r.U64() % uint64(n))
}

// Norm returns a standard normal variate (Box-Muller).
func (r *SubRNG) Norm() float64 {
	u1 := r.Float()
	if u1 < 1e-300 {
		u1 = 1e-300
	}
	u2 := r.Float()
	return math.Sqrt(-2*math.Log(u1)) * math.Cos(2*math.Pi*u2)
}
