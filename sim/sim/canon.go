package sim

import (
	"fmt"
	"hash/fnv"
	"math"
	"sort"
	"strings"

	"github.com/yaricom/goNEAT/v4/neat"
	"github.com/yaricom/goNEAT/v4/neat/genetics"
	"github.com/yaricom/goNEAT/v4/neat/network"
)

// Canonical, pointer-free records of a genome. Floats are kept as bit patterns so equality is exact.

type TraitRec struct {
	Id     int
	Params []uint64
}

type NodeRec struct {
	Id      int
	Neuron  int
	Act     int
	TraitId int
}

type GeneRec struct {
	Innov   int64
	In, Out int
	Rec     bool
	W, Mut  uint64
	En      bool
	TraitId int
}

type ModRec struct {
	Innov   int64
	Mut     uint64
	En      bool
	CtrlId  int
	Act     int
	TraitId int
	Ins     []int
	Outs    []int
	InW     []uint64
	OutW    []uint64
}

type GenomeRec struct {
	Id     int
	Traits []TraitRec
	Nodes  []NodeRec
	Genes  []GeneRec
	Mods   []ModRec
}

func traitId(t *neat.Trait) int {
	if t == nil {
		return 0
	}
	return t.Id
}

func nodeId(n *network.NNode) int {
	if n == nil {
		return -999999
	}
	return n.Id
}

// Canon builds the canonical record of a genome.
func Canon(g *genetics.Genome) *GenomeRec {
	r := &GenomeRec{Id: g.Id}
	for _, t := range g.Traits {
		tr := TraitRec{Id: t.Id}
		for _, p := range t.Params {
			tr.Params = append(tr.Params, math.Float64bits(p))
		}
		r.Traits = append(r.Traits, tr)
	}
	for _, n := range g.Nodes {
		r.Nodes = append(r.Nodes, NodeRec{Id: n.Id, Neuron: int(n.NeuronType), Act: int(n.ActivationType), TraitId: traitId(n.Trait)})
	}
	for _, gn := range g.Genes {
		r.Genes = append(r.Genes, GeneRec{
			Innov: gn.InnovationNum, In: nodeId(gn.Link.InNode), Out: nodeId(gn.Link.OutNode), Rec: gn.Link.IsRecurrent,
			W: math.Float64bits(gn.Link.ConnectionWeight), Mut: math.Float64bits(gn.MutationNum), En: gn.IsEnabled,
			TraitId: traitId(gn.Link.Trait),
		})
	}
	for _, cg := range g.ControlGenes {
		m := ModRec{Innov: cg.InnovationNum, Mut: math.Float64bits(cg.MutationNum), En: cg.IsEnabled,
			CtrlId: cg.ControlNode.Id, Act: int(cg.ControlNode.ActivationType), TraitId: traitId(cg.ControlNode.Trait)}
		for _, l := range cg.ControlNode.Incoming {
			m.Ins = append(m.Ins, nodeId(l.InNode))
			m.InW = append(m.InW, math.Float64bits(l.ConnectionWeight))
		}
		for _, l := range cg.ControlNode.Outgoing {
			m.Outs = append(m.Outs, nodeId(l.OutNode))
			m.OutW = append(m.OutW, math.Float64bits(l.ConnectionWeight))
		}
		r.Mods = append(r.Mods, m)
	}
	return r
}

// String renders the record; withId=false leaves the genome id out (for "equal except id").
func (r *GenomeRec) Dump(withId bool) string {
	var b strings.Builder
	if withId {
		fmt.Fprintf(&b, "genome %d\n", r.Id)
	}
	for _, t := range r.Traits {
		fmt.Fprintf(&b, "T %d %x\n", t.Id, t.Params)
	}
	for _, n := range r.Nodes {
		fmt.Fprintf(&b, "N %d nt=%d act=%d tr=%d\n", n.Id, n.Neuron, n.Act, n.TraitId)
	}
	for _, g := range r.Genes {
		fmt.Fprintf(&b, "G #%d %d->%d rec=%t w=%x m=%x en=%t tr=%d\n", g.Innov, g.In, g.Out, g.Rec, g.W, g.Mut, g.En, g.TraitId)
	}
	for _, m := range r.Mods {
		fmt.Fprintf(&b, "M #%d m=%x en=%t ctrl=%d act=%d tr=%d in=%v out=%v iw=%x ow=%x\n", m.Innov, m.Mut, m.En, m.CtrlId, m.Act, m.TraitId, m.Ins, m.Outs, m.InW, m.OutW)
	}
	return b.String()
}

// Pretty renders a record in human terms (decimal floats) for replay files and messages.
func (r *GenomeRec) Pretty() string {
	var b strings.Builder
	fmt.Fprintf(&b, "genome %d: %d traits, nodes[", r.Id, len(r.Traits))
	for i, n := range r.Nodes {
		if i > 0 {
			b.WriteString(" ")
		}
		fmt.Fprintf(&b, "%d%s", n.Id, [...]string{"h", "i", "o", "b"}[n.Neuron&3])
	}
	b.WriteString("] genes[")
	for i, g := range r.Genes {
		if i > 0 {
			b.WriteString(" ")
		}
		fl := ""
		if g.Rec {
			fl += "r"
		}
		if !g.En {
			fl += "d"
		}
		fmt.Fprintf(&b, "#%d:%d>%d%s(%.4g)", g.Innov, g.In, g.Out, fl, math.Float64frombits(g.W))
	}
	b.WriteString("]")
	return b.String()
}

func HashString(s string) uint64 {
	h := fnv.New64a()
	_, _ = h.Write([]byte(s))
	return h.Sum64()
}

// Hash is the hash of the full dump without id.
func (r *GenomeRec) Hash() uint64 { return HashString(r.Dump(false)) }

// ShapeHash abstracts a genome to (gene count, node count, disabled, recurrent, max innovation): the "distinct state" measure.
func (r *GenomeRec) ShapeHash() uint64 {
	dis, rec := 0, 0
	var maxInn int64
	for _, g := range r.Genes {
		if !g.En {
			dis++
		}
		if g.Rec {
			rec++
		}
		if g.Innov > maxInn {
			maxInn = g.Innov
		}
	}
	return Mix(uint64(len(r.Genes)), uint64(len(r.Nodes)), uint64(dis), uint64(rec), uint64(maxInn))
}

// TopologyDump is the dump restricted to what a spawn must preserve: everything except weights and mutation numbers.
func (r *GenomeRec) TopologyDump() string {
	var b strings.Builder
	for _, t := range r.Traits {
		fmt.Fprintf(&b, "T %d %x\n", t.Id, t.Params)
	}
	for _, n := range r.Nodes {
		fmt.Fprintf(&b, "N %d nt=%d act=%d tr=%d\n", n.Id, n.Neuron, n.Act, n.TraitId)
	}
	for _, g := range r.Genes {
		fmt.Fprintf(&b, "G #%d %d->%d rec=%t en=%t tr=%d\n", g.Innov, g.In, g.Out, g.Rec, g.En, g.TraitId)
	}
	for _, m := range r.Mods {
		fmt.Fprintf(&b, "M #%d en=%t ctrl=%d act=%d tr=%d in=%v out=%v\n", m.Innov, m.En, m.CtrlId, m.Act, m.TraitId, m.Ins, m.Outs)
	}
	return b.String()
}

// FirstDiff returns the first differing line of two dumps, for messages.
func FirstDiff(a, b string) string {
	la, lb := strings.Split(a, "\n"), strings.Split(b, "\n")
	for i := 0; i < len(la) || i < len(lb); i++ {
		var x, y string
		if i < len(la) {
			x = la[i]
		}
		if i < len(lb) {
			y = lb[i]
		}
		if x != y {
			return fmt.Sprintf("line %d: %q vs %q", i, x, y)
		}
	}
	return "equal"
}

// IONode is an input, bias or output node an ancestor had.
type IONode struct {
	Id     int
	Neuron int
}

// IONodes lists the input, bias and output nodes of a genome.
func IONodes(g *genetics.Genome) []IONode {
	var res []IONode
	for _, n := range g.Nodes {
		if n.NeuronType == network.InputNeuron || n.NeuronType == network.BiasNeuron || n.NeuronType == network.OutputNeuron {
			res = append(res, IONode{n.Id, int(n.NeuronType)})
		}
	}
	return res
}

// WellFormed is the C01 predicate. It returns the list of violated clauses (empty = well formed). ancestors may be nil.
// expressible controls whether Genesis is attempted (it is restored afterwards so the genome is left as found).
func WellFormed(g *genetics.Genome, ancestors []IONode, expressible bool) []string {
	var bad []string
	add := func(f string, a ...interface{}) {
		if len(bad) < 8 {
			bad = append(bad, fmt.Sprintf(f, a...))
		}
	}
	// nodes ascending, unique
	nodeSet := make(map[*network.NNode]bool, len(g.Nodes))
	byId := make(map[int]*network.NNode, len(g.Nodes))
	for i, n := range g.Nodes {
		if n == nil {
			add("nil node at %d", i)
			continue
		}
		if i > 0 && g.Nodes[i-1] != nil && n.Id <= g.Nodes[i-1].Id {
			add("node ids not strictly ascending at index %d: %d after %d", i, n.Id, g.Nodes[i-1].Id)
		}
		nodeSet[n] = true
		if _, dup := byId[n.Id]; !dup {
			byId[n.Id] = n
		}
		if g.NodeWithId(n.Id) != n {
			add("NodeWithId(%d) does not return the genome's node", n.Id)
		}
		if n.Trait != nil && !hasTrait(g, n.Trait) {
			add("node %d references a trait that is not one of the genome's", n.Id)
		}
	}
	// absent ids
	maxId := 0
	for id := range byId {
		if id > maxId {
			maxId = id
		}
	}
	for _, id := range []int{maxId + 1, maxId + 7, -1, 0} {
		if _, ok := byId[id]; !ok && g.NodeWithId(id) != nil {
			add("NodeWithId(%d) returns a node for an absent id", id)
		}
	}
	// genes
	type lk struct {
		in, out int
		rec     bool
	}
	seen := make(map[lk]int64, len(g.Genes))
	for i, gn := range g.Genes {
		if gn == nil || gn.Link == nil {
			add("nil gene at %d", i)
			continue
		}
		if i > 0 && g.Genes[i-1] != nil && gn.InnovationNum <= g.Genes[i-1].InnovationNum {
			add("genes not in strictly ascending innovation order at index %d: #%d after #%d", i, gn.InnovationNum, g.Genes[i-1].InnovationNum)
		}
		in, out := gn.Link.InNode, gn.Link.OutNode
		if in == nil || out == nil {
			add("gene #%d has a nil endpoint", gn.InnovationNum)
			continue
		}
		if !nodeSet[in] {
			add("gene #%d source node %d is not one of the genome's own nodes", gn.InnovationNum, in.Id)
		}
		if !nodeSet[out] {
			add("gene #%d target node %d is not one of the genome's own nodes", gn.InnovationNum, out.Id)
		}
		if out.NeuronType == network.InputNeuron || out.NeuronType == network.BiasNeuron {
			add("gene #%d ends in sensor node %d", gn.InnovationNum, out.Id)
		}
		k := lk{in.Id, out.Id, gn.Link.IsRecurrent}
		if prev, dup := seen[k]; dup {
			add("genes #%d and #%d join the same node pair %d->%d with recurrence %t", prev, gn.InnovationNum, in.Id, out.Id, gn.Link.IsRecurrent)
		}
		seen[k] = gn.InnovationNum
		if gn.Link.Trait != nil && !hasTrait(g, gn.Link.Trait) {
			add("gene #%d references a trait that is not one of the genome's", gn.InnovationNum)
		}
	}
	for _, a := range ancestors {
		n, ok := byId[a.Id]
		if !ok {
			add("ancestor node %d (role %d) is missing", a.Id, a.Neuron)
		} else if int(n.NeuronType) != a.Neuron {
			add("ancestor node %d changed role %d -> %d", a.Id, a.Neuron, n.NeuronType)
		}
	}
	if expressible && len(bad) == 0 {
		if err := TryGenesis(g); err != nil {
			add("cannot be expressed as a network: %v", err)
		}
	}
	return bad
}

func hasTrait(g *genetics.Genome, t *neat.Trait) bool {
	for _, x := range g.Traits {
		if x == t {
			return true
		}
	}
	return false
}

// TryGenesis expresses the genome and restores the genome's phenotype links, so that observation does not perturb
// the library's later behaviour (mutateAddLink looks at Genome.Phenotype).
func TryGenesis(g *genetics.Genome) (err error) {
	defer func() {
		if r := recover(); r != nil {
			err = fmt.Errorf("panic in Genesis: %v", r)
		}
	}()
	oldPh := g.Phenotype
	olds := make([]*network.NNode, len(g.Nodes))
	for i, n := range g.Nodes {
		if n != nil {
			olds[i] = n.PhenotypeAnalogue
		}
	}
	_, err = g.Genesis(g.Id)
	g.Phenotype = oldPh
	for i, n := range g.Nodes {
		if n != nil {
			n.PhenotypeAnalogue = olds[i]
		}
	}
	return err
}

// GenesisCopy expresses the genome without leaving marks on it and returns the network.
func GenesisCopy(g *genetics.Genome) (net *network.Network, err error) {
	defer func() {
		if r := recover(); r != nil {
			err = fmt.Errorf("panic in Genesis: %v", r)
		}
	}()
	oldPh := g.Phenotype
	olds := make([]*network.NNode, len(g.Nodes))
	for i, n := range g.Nodes {
		olds[i] = n.PhenotypeAnalogue
	}
	net, err = g.Genesis(g.Id)
	g.Phenotype = oldPh
	for i, n := range g.Nodes {
		n.PhenotypeAnalogue = olds[i]
	}
	return net, err
}

// sortedKeys helper
func sortedInt64(m map[int64]bool) []int64 {
	res := make([]int64, 0, len(m))
	for k := range m {
		res = append(res, k)
	}
	sort.Slice(res, func(i, j int) bool { return res[i] < res[j] })
	return res
}
