package sim

import (
	"fmt"
	"github.com/yaricom/goNEAT/v4/neat"
	"github.com/yaricom/goNEAT/v4/neat/genetics"
	"runtime/debug"
	"time"
)

// OrgSnap is what the harness remembers about an organism before a turnover.
type OrgSnap struct {
	Org     *genetics.Organism
	Genome  *genetics.Genome
	Rec     *GenomeRec
	Raw     float64
	Species *genetics.Species
}

// SpeciesSnap is what the harness remembers about a species before a turnover.
type SpeciesSnap struct {
	Sp                   *genetics.Species
	Id, Age              int
	AgeOfLastImprovement int
	MaxFitnessEver       float64
	Members              []*genetics.Organism
}

// PreparedSnap is the state at the "epoch.prepared" observation point: after fitness adjustment, apportionment,
// stealing / delta coding and culling, before reproduction.
type PreparedSnap struct {
	SpeciesLeft  []*genetics.Species                        // Population.Species at that instant, in order
	Sorted       []*genetics.Species                        // the executor's sorted species
	Quota        map[*genetics.Species]int                  // ExpectedOffspring of every pre-epoch species
	Parents      map[*genetics.Species][]*genetics.Organism // Species.Organisms after culling
	Adj          map[*genetics.Organism]float64             // adjusted fitness
	Exp          map[*genetics.Organism]float64             // expected offspring per organism
	Highest      float64
	SinceHighest int
}

// SpeciateSnap is the state at a "speciate.begin" observation point.
type SpeciateSnap struct {
	Batch       []*genetics.Organism
	Species     []*genetics.Species
	Reps        []*genetics.Organism // representative (first organism) of each species at that instant; nil if empty
	LastSpecies int
}

// EpochSnap is everything recorded around one turnover.
type EpochSnap struct {
	Gen          int
	Orgs         []OrgSnap
	Species      []SpeciesSnap
	MaxInnov     int64
	MaxNodeId    int
	Highest      float64
	SinceHighest int
	LastSpecies  int
	Prepared     *PreparedSnap
	Speciations  []*SpeciateSnap
	Err          error
}

// SnapshotPop records the population before a turnover. withRec also takes canonical genome records (costly).
func SnapshotPop(pop *genetics.Population, gen int, withRec bool) *EpochSnap {
	s := &EpochSnap{Gen: gen, Highest: pop.HighestFitness, SinceHighest: pop.EpochsHighestLastChanged, LastSpecies: pop.LastSpecies}
	for _, o := range pop.Organisms {
		os := OrgSnap{Org: o, Genome: o.Genotype, Raw: o.Fitness, Species: o.Species}
		if withRec {
			os.Rec = Canon(o.Genotype)
		}
		s.Orgs = append(s.Orgs, os)
		for _, g := range o.Genotype.Genes {
			if g.InnovationNum > s.MaxInnov {
				s.MaxInnov = g.InnovationNum
			}
		}
		for _, n := range o.Genotype.Nodes {
			if n.Id > s.MaxNodeId {
				s.MaxNodeId = n.Id
			}
		}
	}
	for _, sp := range pop.Species {
		ss := SpeciesSnap{Sp: sp, Id: sp.Id, Age: sp.Age, AgeOfLastImprovement: sp.AgeOfLastImprovement, MaxFitnessEver: sp.MaxFitnessEver}
		ss.Members = append(ss.Members, sp.Organisms...)
		s.Species = append(s.Species, ss)
	}
	return s
}

func snapSpeciate(pop *genetics.Population, batch []*genetics.Organism) *SpeciateSnap {
	ss := &SpeciateSnap{LastSpecies: pop.LastSpecies}
	ss.Batch = append(ss.Batch, batch...)
	for _, sp := range pop.Species {
		ss.Species = append(ss.Species, sp)
		var rep *genetics.Organism
		if len(sp.Organisms) > 0 {
			rep = sp.Organisms[0]
		}
		ss.Reps = append(ss.Reps, rep)
	}
	return ss
}

func snapPrepared(snap *EpochSnap, pop *genetics.Population, sorted []*genetics.Species) *PreparedSnap {
	p := &PreparedSnap{Quota: map[*genetics.Species]int{}, Parents: map[*genetics.Species][]*genetics.Organism{},
		Adj: map[*genetics.Organism]float64{}, Exp: map[*genetics.Organism]float64{},
		Highest: pop.HighestFitness, SinceHighest: pop.EpochsHighestLastChanged}
	p.SpeciesLeft = append(p.SpeciesLeft, pop.Species...)
	p.Sorted = append(p.Sorted, sorted...)
	for _, ss := range snap.Species {
		p.Quota[ss.Sp] = ss.Sp.ExpectedOffspring
		p.Parents[ss.Sp] = append([]*genetics.Organism(nil), ss.Sp.Organisms...)
	}
	for _, os := range snap.Orgs {
		p.Adj[os.Org] = os.Org.Fitness
		p.Exp[os.Org] = os.Org.ExpectedOffspring
	}
	return p
}

// EpochHooks lets a scenario inject faults at the observation points.
type EpochHooks struct {
	OnPrepared func()
	OnSpeciate func()
	OnYield    func(tag string)
	// KeepHooks, when it returns true after the turnover, leaves the hooks installed
	KeepHooks func() bool
}

// StepEpoch assigns fitness for the current generation, records the snapshot, turns the epoch over with the
// observation hooks installed and returns the snapshot (Err holds the error of NextEpoch).
func StepEpoch(c *RunCtx, w *World, withRec bool, eh *EpochHooks, lib func(string, func())) *EpochSnap {
	w.AssignFitness()
	snap := SnapshotPop(w.Pop, w.Gen, withRec)
	prev := genetics.Verif
	hooks := &genetics.VerifHooks{}
	if prev != nil {
		*hooks = *prev // keep scheduler hooks
	}
	hooks.Observe = func(event string, pop *genetics.Population, orgs []*genetics.Organism, sorted []*genetics.Species) {
		switch event {
		case "speciate.begin":
			snap.Speciations = append(snap.Speciations, snapSpeciate(pop, orgs))
			if eh != nil && eh.OnSpeciate != nil {
				eh.OnSpeciate()
			}
		case "epoch.prepared":
			snap.Prepared = snapPrepared(snap, pop, sorted)
			if eh != nil && eh.OnPrepared != nil {
				eh.OnPrepared()
			}
		}
	}
	if eh != nil && eh.OnYield != nil && hooks.Yield == nil {
		hooks.Yield = eh.OnYield
	}
	genetics.Verif = hooks
	defer func() {
		if eh != nil && eh.KeepHooks != nil && eh.KeepHooks() {
			// reproduction goroutines are still alive: they go on reading the hook variable, so it is left alone
			// (the scenario deals with them and restores the hooks itself)
			return
		}
		genetics.Verif = prev
	}()
	lib("NextEpoch", func() {
		if s := CurrentSched; s != nil && w.IsParallel() && genetics.Verif != nil && genetics.Verif.Await != nil {
			nextEpochGuarded(c, w, snap, s)
			return
		}
		snap.Err = w.Exec.NextEpoch(w.Ctx, w.Gen, w.Pop)
	})
	w.Gen++
	return snap
}

// IsParallel tells whether the world uses the parallel executor.
func (w *World) IsParallel() bool { return w.Opts.EpochExecutorType == neat.EpochExecutorTypeParallel }

// PopShapeHash hashes the multiset-free sequence of genome shapes and the species sizes: a distinct-state measure.
func PopShapeHash(pop *genetics.Population) uint64 {
	h := uint64(len(pop.Organisms))
	for _, sp := range pop.Species {
		h = Mix(h, uint64(len(sp.Organisms)), uint64(sp.Age))
	}
	for _, o := range pop.Organisms {
		dis := 0
		for _, g := range o.Genotype.Genes {
			if !g.IsEnabled {
				dis++
			}
		}
		h = Mix(h, uint64(len(o.Genotype.Genes)), uint64(len(o.Genotype.Nodes)), uint64(dis))
	}
	return h
}

// EpochHangAfter is how long a parallel turnover may stay without any scheduler event while no reproduction goroutine is
// pending before it is taken for hung.
var EpochHangAfter = 45 * time.Second

// nextEpochGuarded runs a turnover of the parallel executor under the tape-driven scheduler on a goroutine of its own
// and watches it: when every reproduction goroutine has ended (none pending), NextEpoch has not returned and the
// scheduler has seen no event for EpochHangAfter, the turnover hangs - the parent waits for something no goroutine will
// ever deliver (a wait-group count no task will decrement, a channel nobody sends on). With one task at a time and all
// of them over this is a structural deadlock, the same for every replay of the tape; the wall-clock limit only decides
// when to stop looking. C02 and C16 speak about the turnover succeeding, there it is a violation; elsewhere the run is
// abandoned. A turnover that still has parked or running tasks and makes no progress is left to the worker's watchdog
// (exit 2, scheduler trouble, never a verdict).
func nextEpochGuarded(c *RunCtx, w *World, snap *EpochSnap, s *Sched) {
	done := make(chan struct{})
	var pv interface{}
	var stack string
	go func() {
		defer close(done)
		defer func() {
			if r := recover(); r != nil {
				pv, stack = r, trimStack(debug.Stack())
			}
		}()
		snap.Err = w.Exec.NextEpoch(w.Ctx, w.Gen, w.Pop)
	}()
	last, since := s.Progress(), time.Now()
	tick := time.NewTicker(100 * time.Millisecond)
	defer tick.Stop()
	for {
		select {
		case <-done:
			if _, stop := pv.(stopRun); stop {
				panic(pv) // a hook of the scenario ended the run from inside the turnover
			}
			if pv != nil {
				panic(fmt.Sprintf("%v [%s]", pv, stack))
			}
			return
		case <-tick.C:
			if p := s.Progress(); p != last || s.Pending() != 0 {
				last, since = p, time.Now()
			} else if time.Since(since) > EpochHangAfter {
				c.Count("observe.epoch_hang")
				if c.Prop == "C02" || c.Prop == "C16" {
					c.Fail("epoch-hang", "world [%s]: NextEpoch(generation %d) of the parallel executor does not return: every reproduction goroutine has ended and the parent still waits (no scheduler event for %v)", w.KindName, w.Gen, EpochHangAfter)
				}
				c.Skip("epoch-hang")
			}
		}
	}
}
