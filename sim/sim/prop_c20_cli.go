package sim

import (
	"bytes"
	"fmt"
	"io"
	"os"
	"os/exec"
	"strings"
	"time"

	"github.com/yaricom/goNEAT/v4/experiment"
)

// scenarioC20CLI runs the shipped experiment runner (package main of the repository, built from the working tree by
// simctl) as a child process: XOR experiment, shipped start genome, a drawn small configuration, with or without the
// -trials option that overrides the configured number of trials. The record the runner saves (XOR.dat) is read back with
// Experiment.Read and judged against the protocol: exactly the requested number of trials, recorded in order, each with
// generations 0,1,2,... up to the configured maximum and nothing after a solved one.
func scenarioC20CLI(c *RunCtx) {
	t := c.T
	bin := os.Getenv("VERIF_CLI_BIN")
	if bin == "" {
		panic("harness: VERIF_CLI_BIN is not set for a C20 command-line scenario")
	}
	pop := t.Range("cli.pop", 6, 20)
	gens := t.Range("cli.gens", 1, 3)
	cfgTrials := t.Range("cli.cfgTrials", 1, 3)
	optTrials := 0 // 0: the option is not given
	if t.Chance("cli.trialsOption", 2, 3) {
		optTrials = t.Range("cli.optTrials", 1, 4)
	}
	want := cfgTrials
	if optTrials > 0 {
		want = optTrials
	}
	seed := t.Draw("cli.seed", 1<<31)
	genomeFile := []string{"xorstartgenes", "xordisconnectedstartgenes"}[t.Draw("cli.genome", 2)]
	desc := fmt.Sprintf("command-line runner: XOR, %s, -seed %d, configuration pop_size=%d num_generations=%d num_runs=%d", genomeFile, seed, pop, gens, cfgTrials)
	if optTrials > 0 {
		desc += fmt.Sprintf(", option -trials %d", optTrials)
	}
	c.Sample = desc
	c.Op("%s", desc)
	dir, err := os.MkdirTemp("", "verif-c20cli-")
	if err != nil {
		panic("harness: " + err.Error())
	}
	defer os.RemoveAll(dir)
	tmpl, err := os.ReadFile(RepoDir + "/data/xor_test.neat")
	if err != nil {
		panic("harness: " + err.Error())
	}
	var cfg []string
	for _, line := range strings.Split(string(tmpl), "\n") {
		f := strings.Fields(line)
		if len(f) >= 2 {
			switch f[0] {
			case "pop_size":
				line = fmt.Sprintf("pop_size %d", pop)
			case "num_generations":
				line = fmt.Sprintf("num_generations %d", gens)
			case "num_runs":
				line = fmt.Sprintf("num_runs %d", cfgTrials)
			case "print_every":
				line = "print_every 1"
			case "log_level":
				line = "log_level error"
			}
		}
		cfg = append(cfg, line)
	}
	ctxFile := dir + "/ctx.neat"
	if err := os.WriteFile(ctxFile, []byte(strings.Join(cfg, "\n")), 0o644); err != nil {
		panic("harness: " + err.Error())
	}
	outDir := dir + "/out"
	args := []string{"-out", outDir, "-context", ctxFile, "-genome", RepoDir + "/data/" + genomeFile, "-experiment", "XOR", "-seed", fmt.Sprint(seed)}
	if optTrials > 0 {
		args = append(args, "-trials", fmt.Sprint(optTrials))
	}
	cmd := exec.Command(bin, args...)
	cmd.Dir = dir
	cmd.Env = append(os.Environ(), fmt.Sprintf("VERIF_FAKE_NOW=%d", c17CliBase))
	var se bytes.Buffer
	cmd.Stdout, cmd.Stderr = io.Discard, &se
	done := make(chan error, 1)
	if err := cmd.Start(); err != nil {
		panic("harness: cannot start the command-line runner: " + err.Error())
	}
	go func() { done <- cmd.Wait() }()
	select {
	case err = <-done:
	case <-time.After(90 * time.Second):
		_ = cmd.Process.Kill()
		<-done
		// whether main or the signal goroutine receives the result is the Go scheduler's choice (two receivers on one
		// channel); the runner's termination is outside the listed properties: counted and skipped, never reported
		c.Count("observe.cli_runner_timeout")
		c.Skip("cli-runner-timeout")
	}
	c.Count("probe.command_line_runner")
	if optTrials > 0 && optTrials != cfgTrials {
		c.Count("probe.cli_trials_option_overrides")
	}
	c.Steps++
	tail := func() string {
		s := se.String()
		if len(s) > 600 {
			s = "…" + s[len(s)-600:]
		}
		return s
	}
	if err != nil {
		c.Fail("cli:runner-failed", "%s\nthe runner ended with %v instead of completing its %d trial(s); its stderr ends: %s", desc, err, want, tail())
	}
	data, rerr := os.ReadFile(outDir + "/XOR.dat")
	if rerr != nil {
		c.Fail("cli:no-record", "%s\nthe runner exited normally but left no experiment record: %v", desc, rerr)
	}
	exp := &experiment.Experiment{}
	var derr error
	c.Lib("Experiment.Read", func() { derr = exp.Read(bytes.NewReader(data)) })
	if derr != nil {
		c.Fail("cli:record-unreadable", "%s\nthe experiment record the runner saved cannot be read back: %v", desc, derr)
	}
	if len(exp.Trials) != want {
		c.Fail("cli:trial-count", "%s\n%d trial(s) were to be run, the saved experiment holds %d trial record(s)", desc, want, len(exp.Trials))
	}
	for ti := range exp.Trials {
		tr := &exp.Trials[ti]
		if tr.Id != ti {
			c.Fail("cli:trial-order", "%s\ntrial record #%d carries id %d", desc, ti, tr.Id)
		}
		n := len(tr.Generations)
		if n == 0 || n > gens {
			c.Fail("cli:generation-count", "%s\ntrial %d records %d generation(s), between 1 and %d were to be evaluated", desc, ti, n, gens)
		}
		for gi := range tr.Generations {
			g := &tr.Generations[gi]
			if g.Id != gi {
				c.Fail("cli:generation-order", "%s\ntrial %d: generation record #%d carries id %d", desc, ti, gi, g.Id)
			}
			if g.TrialId != ti {
				c.Fail("cli:generation-order", "%s\ntrial %d: generation record #%d says it belongs to trial %d", desc, ti, gi, g.TrialId)
			}
			if g.Solved && gi != n-1 {
				c.Fail("cli:continued-after-solved", "%s\ntrial %d: generation %d is recorded as solved, yet %d more generation(s) follow", desc, ti, gi, n-1-gi)
			}
		}
		if n < gens && !tr.Generations[n-1].Solved {
			c.Fail("cli:generation-count", "%s\ntrial %d stops after %d of %d generations although none is recorded as solved", desc, ti, n, gens)
		}
		if n < gens {
			c.Count("probe.cli_trial_solved_early")
		}
	}
	h := Mix(uint64(pop), uint64(gens), uint64(cfgTrials), uint64(optTrials))
	c.State(h)
	if optTrials > 0 && optTrials != cfgTrials {
		c.Nontrivial(h)
	}
}
