package sim

import (
	"bytes"
	"context"
	"fmt"
	"math"
	"math/rand"
	"os"
	"path/filepath"
	"sort"
	"strings"

	"github.com/yaricom/goNEAT/v4/neat"
	"github.com/yaricom/goNEAT/v4/neat/genetics"
	neatmath "github.com/yaricom/goNEAT/v4/neat/math"
	"github.com/yaricom/goNEAT/v4/neat/network"
)

// RepoDir is where the goNEAT tree under test lives (data files are read from there).
var RepoDir = "/repo"

func init() {
	if d := os.Getenv("VERIF_REPO"); d != "" {
		RepoDir = d
	}
}

// QuietLogs silences the library loggers (they are plain function variables).
func QuietLogs() {
	_ = neat.InitLogger("error")
	nop := func(string) {}
	neat.DebugLog, neat.InfoLog, neat.WarnLog, neat.ErrorLog = nop, nop, nop, nop
}

// SeedLibrary seeds the library's only source of randomness from the tape.
func SeedLibrary(t *Tape) int64 {
	s := int64(t.Draw("libseed", 1<<31))
	rand.Seed(s)
	return s
}

func seedLib(s int64) { rand.Seed(s) }

// ---------- option swarm ----------

// OptProfile steers the swarm towards what a property needs.
type OptProfile struct {
	MinPop, MaxPop   int
	Structural       int  // 0 = swarm, 1 = high structural mutation rates
	NoRecurrent      bool // RecurOnlyProb = 0
	ForceRecurrent   bool // RecurOnlyProb high
	ManySpecies      bool // small compat threshold
	AllowStolen      bool
	SmallDropOff     bool // DropOffAge small so that stagnation and delta coding fire
	Parallel         int  // 0 sequential, 1 parallel, 2 drawn
	ActivationSwarm  bool
	CompatMethodBoth bool
	// IntegralCompat: a share of the worlds uses whole-number coefficients (no weight term) and a whole-number
	// threshold, so that distances equal to the threshold occur and the strictness of "closer than" is exercised
	IntegralCompat bool
}

var allScalarActivations = []neatmath.NodeActivationType{
	neatmath.SigmoidSteepenedActivation, neatmath.SigmoidPlainActivation, neatmath.SigmoidReducedActivation,
	neatmath.SigmoidBipolarActivation, neatmath.SigmoidApproximationActivation, neatmath.SigmoidSteepenedApproximationActivation,
	neatmath.SigmoidInverseAbsoluteActivation, neatmath.SigmoidLeftShiftedActivation, neatmath.SigmoidLeftShiftedSteepenedActivation,
	neatmath.SigmoidRightShiftedSteepenedActivation, neatmath.TanhActivation, neatmath.GaussianBipolarActivation,
	neatmath.GaussianActivation, neatmath.LinearActivation, neatmath.LinearAbsActivation, neatmath.LinearClippedActivation,
	neatmath.NullActivation, neatmath.SignActivation, neatmath.SineActivation, neatmath.StepActivation,
}

func prob(t *Tape, label string) float64 {
	// 0 -> 0.0 (simplest), otherwise spread over [0,1] including exactly 1
	switch t.Pick(label+".k", 2, 6, 1) {
	case 0:
		return 0
	case 2:
		return 1
	}
	return t.Float(label)
}

// DrawOptions draws a complete option set within the documented ranges.
func DrawOptions(t *Tape, p OptProfile) *neat.Options {
	if p.MinPop < 3 {
		p.MinPop = 3
	}
	if p.MaxPop < p.MinPop {
		p.MaxPop = 40
	}
	o := &neat.Options{}
	o.PopSize = t.Range("PopSize", p.MinPop, p.MaxPop)
	o.TraitParamMutProb = prob(t, "TraitParamMutProb")
	o.TraitMutationPower = t.FloatRange("TraitMutationPower", 0.1, 2)
	o.WeightMutPower = t.FloatRange("WeightMutPower", 0.1, 5)
	switch t.Pick("coeffs", 4, 3, 1, 1) {
	case 0:
		o.DisjointCoeff, o.ExcessCoeff, o.MutdiffCoeff = 1, 1, 0.4
	case 1:
		o.DisjointCoeff, o.ExcessCoeff, o.MutdiffCoeff = t.FloatRange("Dc", 0, 3), t.FloatRange("Ec", 0, 3), t.FloatRange("Mc", 0, 3)
	case 2:
		o.DisjointCoeff, o.ExcessCoeff, o.MutdiffCoeff = 0, 0, 1
	case 3:
		o.DisjointCoeff, o.ExcessCoeff, o.MutdiffCoeff = 2, 1, 0
	}
	if p.ManySpecies {
		o.CompatThreshold = t.FloatRange("CompatThreshold", 0.2, 1.5)
	} else {
		switch t.Pick("ct", 3, 3, 1) {
		case 0:
			o.CompatThreshold = 3
		case 1:
			o.CompatThreshold = t.FloatRange("CompatThreshold", 0.2, 10)
		case 2:
			o.CompatThreshold = t.FloatRange("CompatThresholdSmall", 0.2, 1)
		}
	}
	switch t.Pick("as", 2, 2) {
	case 0:
		o.AgeSignificance = 1
	case 1:
		o.AgeSignificance = t.FloatRange("AgeSignificance", 1, 3)
	}
	switch t.Pick("st", 2, 3, 1) {
	case 0:
		// the shipped value and other round fractions: survival_thresh * n is then a whole number for many species sizes
		o.SurvivalThresh = []float64{0.2, 0.5, 0.25, 0.1}[t.Pick("st.round", 3, 1, 1, 1)]
	case 1:
		o.SurvivalThresh = 0.01 + 0.99*t.Float("SurvivalThresh")
	case 2:
		o.SurvivalThresh = 1
	}
	o.MutateOnlyProb = prob(t, "MutateOnlyProb")
	o.MutateRandomTraitProb = prob(t, "MutateRandomTraitProb")
	o.MutateLinkTraitProb = prob(t, "MutateLinkTraitProb")
	o.MutateNodeTraitProb = prob(t, "MutateNodeTraitProb")
	o.MutateLinkWeightsProb = prob(t, "MutateLinkWeightsProb")
	o.MutateToggleEnableProb = prob(t, "MutateToggleEnableProb")
	o.MutateGeneReenableProb = prob(t, "MutateGeneReenableProb")
	if p.Structural == 1 {
		o.MutateAddNodeProb = t.FloatRange("MutateAddNodeProb", 0.1, 0.7)
		o.MutateAddLinkProb = t.FloatRange("MutateAddLinkProb", 0.1, 0.9)
		if o.MutateOnlyProb < 0.3 {
			o.MutateOnlyProb = 0.3 + 0.5*t.Float("MutateOnlyProbHi")
		}
	} else {
		o.MutateAddNodeProb = prob(t, "MutateAddNodeProb") * 0.6
		o.MutateAddLinkProb = prob(t, "MutateAddLinkProb") * 0.8
	}
	o.MutateConnectSensors = prob(t, "MutateConnectSensors")
	o.InterspeciesMateRate = prob(t, "InterspeciesMateRate") * 0.6
	o.MateMultipointProb = prob(t, "MateMultipointProb")
	o.MateMultipointAvgProb = 0.05 + 0.95*t.Float("MateMultipointAvgProb")
	o.MateSinglepointProb = prob(t, "MateSinglepointProb")
	o.MateOnlyProb = prob(t, "MateOnlyProb")
	switch {
	case p.NoRecurrent:
		o.RecurOnlyProb = 0
	case p.ForceRecurrent:
		o.RecurOnlyProb = 0.2 + 0.8*t.Float("RecurOnlyProb")
	default:
		o.RecurOnlyProb = prob(t, "RecurOnlyProb") * 0.7
	}
	if p.SmallDropOff {
		o.DropOffAge = t.Range("DropOffAge", 1, 6)
	} else {
		switch t.Pick("doa", 2, 3) {
		case 0:
			o.DropOffAge = 15
		case 1:
			o.DropOffAge = t.Range("DropOffAge", 1, 20)
		}
	}
	o.NewLinkTries = t.Range("NewLinkTries", 1, 30)
	o.PrintEvery = 1000
	if p.AllowStolen && t.Chance("stolen?", 1, 2) {
		o.BabiesStolen = t.Range("BabiesStolen", 1, o.PopSize/2)
	}
	o.NumRuns = 1
	o.NumGenerations = 10
	o.EpochExecutorType = neat.EpochExecutorTypeSequential
	switch p.Parallel {
	case 1:
		o.EpochExecutorType = neat.EpochExecutorTypeParallel
	case 2:
		if t.Chance("parallel?", 1, 3) {
			o.EpochExecutorType = neat.EpochExecutorTypeParallel
		}
	}
	o.GenCompatMethod = neat.GenomeCompatibilityMethodFast
	if t.Chance("linear?", 1, 2) {
		o.GenCompatMethod = neat.GenomeCompatibilityMethodLinear
	}
	if p.ActivationSwarm && t.Chance("acts?", 2, 3) {
		n := t.Range("nActs", 2, 6)
		for i := 0; i < n; i++ {
			o.NodeActivators = append(o.NodeActivators, allScalarActivations[t.Draw("act", len(allScalarActivations))])
			o.NodeActivatorsProb = append(o.NodeActivatorsProb, 0.1+t.Float("actP"))
		}
	} else {
		o.NodeActivators = []neatmath.NodeActivationType{neatmath.SigmoidSteepenedActivation}
		o.NodeActivatorsProb = []float64{1.0}
	}
	o.LogLevel = "error"
	if p.IntegralCompat && t.Chance("integralCompat", 1, 3) {
		switch t.Draw("integralCompat.set", 3) {
		case 0:
			o.DisjointCoeff, o.ExcessCoeff, o.MutdiffCoeff = 1, 1, 0
		case 1:
			o.DisjointCoeff, o.ExcessCoeff, o.MutdiffCoeff = 2, 1, 0
		case 2:
			o.DisjointCoeff, o.ExcessCoeff, o.MutdiffCoeff = 1, 2, 0
		}
		o.CompatThreshold = float64(1 + t.Draw("integralCompat.thr", 4))
	}
	return o
}

// OptSummary is a short, stable description for replay files.
func OptSummary(o *neat.Options) string {
	return fmt.Sprintf("pop=%d exec=%s compat=%s thr=%.3g coeff=(%.3g,%.3g,%.3g) ageSig=%.3g surv=%.3g dropoff=%d stolen=%d mutOnly=%.2g addNode=%.2g addLink=%.2g connSens=%.2g toggle=%.2g reenable=%.2g interSp=%.2g mp=%.2g mpAvg=%.2g sp=%.2g mateOnly=%.2g recur=%.2g tries=%d acts=%d",
		o.PopSize, o.EpochExecutorType, o.GenCompatMethod, o.CompatThreshold, o.DisjointCoeff, o.ExcessCoeff, o.MutdiffCoeff,
		o.AgeSignificance, o.SurvivalThresh, o.DropOffAge, o.BabiesStolen, o.MutateOnlyProb, o.MutateAddNodeProb, o.MutateAddLinkProb,
		o.MutateConnectSensors, o.MutateToggleEnableProb, o.MutateGeneReenableProb, o.InterspeciesMateRate, o.MateMultipointProb,
		o.MateMultipointAvgProb, o.MateSinglepointProb, o.MateOnlyProb, o.RecurOnlyProb, o.NewLinkTries, len(o.NodeActivators))
}

// ---------- start genomes ----------

var shippedPlain = []string{"xorstartgenes", "xordisconnectedstartgenes", "pole1startgenes", "pole2_markov_startgenes", "pole2_non-markov_startgenes"}

// LoadShipped reads one of the genomes shipped under data/.
func LoadShipped(name string) (*genetics.Genome, error) {
	path := filepath.Join(RepoDir, "data", name)
	data, err := os.ReadFile(path)
	if err != nil {
		return nil, err
	}
	enc := genetics.PlainGenomeEncoding
	if strings.HasSuffix(name, "yml") {
		enc = genetics.YAMLGenomeEncoding
	}
	r, err := genetics.NewGenomeReader(bytes.NewReader(data), enc)
	if err != nil {
		return nil, err
	}
	return r.Read()
}

// GenomeSpec controls the hand-built start genome.
type GenomeSpec struct {
	FeedForwardOnly bool
	AllowDisabled   bool
	MaxHidden       int
	ActSwarm        bool
	// OutToOut: forward links from an output neuron to a later output neuron (what add-link produces between outputs)
	OutToOut bool
	// NoInputsSometimes: one genome in eight has bias nodes as its only sensors (zero input neurons)
	NoInputsSometimes bool
	// PermuteTraitIds: in one genome of three with two or more traits the ids are 1..n in another order than the list
	// (1,3,2 as in the repository's own test genome). Only for scenarios without crossover: the mating code indexes
	// traits by id offset, which C01 and C04 exclude by asking for consecutive ids.
	PermuteTraitIds bool
}

// BuildGenome hand-builds a well-formed non-modular genome: sensors first (ascending ids), consecutive trait ids from 1,
// at least one gene, innovation numbers 1..k ascending.
func BuildGenome(t *Tape, spec GenomeSpec) *genetics.Genome {
	nTraits := t.Range("nTraits", 1, 3)
	if spec.PermuteTraitIds {
		nTraits = t.Range("nTraitsPermuted", 2, 5)
	}
	traits := make([]*neat.Trait, nTraits)
	for i := range traits {
		tr := neat.NewTrait()
		tr.Id = i + 1
		tr.Params[0] = 0.1 * float64(i+1)
		if t.Chance("traitRich", 1, 4) {
			for k := range tr.Params {
				tr.Params[k] = t.Float("tp")
			}
		}
		traits[i] = tr
	}
	if spec.PermuteTraitIds && nTraits >= 2 && t.Chance("permuteTraitIds", 2, 3) {
		// a tape-drawn permutation of the ids 1..n (Fisher-Yates); the list order stays. A permutation that happens to be
		// the identity gets its last two ids swapped.
		ids := make([]int, nTraits)
		for i := range ids {
			ids[i] = i + 1
		}
		same := true
		for i := nTraits - 1; i > 0; i-- {
			j := t.Draw("traitIdPerm", i+1)
			ids[i], ids[j] = ids[j], ids[i]
		}
		for i := range ids {
			same = same && ids[i] == i+1
		}
		if same {
			ids[nTraits-1], ids[nTraits-2] = ids[nTraits-2], ids[nTraits-1]
		}
		for i, tr := range traits {
			tr.Id = ids[i]
		}
	}
	nIn := t.Range("nIn", 1, 4)
	nBias := t.Pick("nBias", 3, 5, 1)
	nOut := t.Range("nOut", 1, 3)
	nHid := t.Range("nHid", 0, spec.MaxHidden)
	if spec.NoInputsSometimes && nBias > 0 && t.Chance("noInputs", 1, 8) {
		nIn = 0
	}
	pickTrait := func() *neat.Trait {
		if t.Chance("nodeTrait", 1, 3) {
			return traits[t.Draw("tr", nTraits)]
		}
		return nil
	}
	var nodes []*network.NNode
	id := 1
	biasFirst := t.Chance("biasFirst", 1, 2)
	addSensors := func(n int, bias bool) {
		for i := 0; i < n; i++ {
			nd := network.NewSensorNode(id, bias)
			nd.Trait = pickTrait()
			nodes = append(nodes, nd)
			id++
		}
	}
	if biasFirst {
		addSensors(nBias, true)
		addSensors(nIn, false)
	} else {
		addSensors(nIn, false)
		addSensors(nBias, true)
	}
	act := func() neatmath.NodeActivationType {
		if spec.ActSwarm && t.Chance("actSwarm", 1, 2) {
			return allScalarActivations[t.Draw("nodeAct", len(allScalarActivations))]
		}
		return neatmath.SigmoidSteepenedActivation
	}
	var outs, hids []*network.NNode
	for i := 0; i < nOut; i++ {
		nd := network.NewNNode(id, network.OutputNeuron)
		nd.ActivationType = act()
		nd.Trait = pickTrait()
		nodes = append(nodes, nd)
		outs = append(outs, nd)
		id++
	}
	for i := 0; i < nHid; i++ {
		nd := network.NewNNode(id, network.HiddenNeuron)
		nd.ActivationType = act()
		nd.Trait = pickTrait()
		nodes = append(nodes, nd)
		hids = append(hids, nd)
		id++
	}
	sensors := nodes[:nIn+nBias]
	var genes []*genetics.Gene
	innov := int64(1)
	dens := t.Range("density", 1, 4) // of 4
	addGene := func(a, b *network.NNode, rec bool, force bool) {
		if !force && !t.Chance("edge", dens, 4) {
			return
		}
		w := math.Round((t.Float("w")*4-2)*1000) / 1000
		var tr *neat.Trait
		if t.Chance("geneTrait", 2, 3) {
			tr = traits[t.Draw("gtr", nTraits)]
		}
		g := genetics.NewGeneWithTrait(tr, w, a, b, rec, innov, w)
		// the harness states every field itself: what a start genome is must not depend on a library constructor
		g.Link.InNode, g.Link.OutNode, g.Link.IsRecurrent, g.Link.Trait, g.Link.ConnectionWeight = a, b, rec, tr, w
		g.InnovationNum, g.MutationNum, g.IsEnabled = innov, w, true
		if spec.AllowDisabled && t.Chance("disabled", 1, 6) {
			g.IsEnabled = false
		}
		genes = append(genes, g)
		innov++
	}
	// sensor -> hidden, sensor -> output, hidden -> later hidden, hidden -> output
	for _, s := range sensors {
		for _, h := range hids {
			addGene(s, h, false, false)
		}
		for _, o := range outs {
			addGene(s, o, false, false)
		}
	}
	for i, h := range hids {
		for _, h2 := range hids[i+1:] {
			addGene(h, h2, false, false)
		}
		for _, o := range outs {
			addGene(h, o, false, false)
		}
	}
	if spec.OutToOut {
		for i, o := range outs {
			for _, o2 := range outs[i+1:] {
				if t.Chance("outToOut", 1, 5) {
					addGene(o, o2, false, true)
				}
			}
		}
	}
	if !spec.FeedForwardOnly {
		// recurrent-labelled extras: self loops and backward edges
		for i, h := range hids {
			if t.Chance("selfLoop", 1, 5) {
				addGene(h, h, true, true)
			}
			for _, h0 := range hids[:i] {
				if t.Chance("backEdge", 1, 6) {
					addGene(h, h0, true, true)
				}
			}
		}
		for _, o := range outs {
			if t.Chance("outLoop", 1, 6) {
				addGene(o, o, true, true)
			}
			for _, h := range hids {
				if t.Chance("outBack", 1, 8) {
					addGene(o, h, true, true)
				}
			}
		}
	}
	if !spec.FeedForwardOnly && t.Chance("parallelTwin", 1, 6) {
		// two links between the same ordered pair of neurons, one forward and one recurrent-flagged (what add-link
		// produces when it draws the same pair once for a forward and once for a recurrent link)
		var fwd []*genetics.Gene
		for _, g := range genes {
			if !g.Link.IsRecurrent && !g.Link.InNode.IsSensor() {
				fwd = append(fwd, g)
			}
		}
		if len(fwd) > 0 {
			src := fwd[t.Draw("parallelTwin.src", len(fwd))]
			addGene(src.Link.InNode, src.Link.OutNode, true, true)
		}
	}
	if len(genes) == 0 {
		addGene(sensors[0], outs[0], false, true)
		genes[0].IsEnabled = true
	}
	// Unusual but legal layout: node ids need not put the sensors first. The ids are permuted after everything else was
	// drawn (so tape value 0 = the canonical layout) and the node list is re-sorted by id.
	if t.Chance("layout.shuffled", 1, 5) {
		sub := t.Sub("layout.seed")
		ids := make([]int, len(nodes))
		for i := range ids {
			ids[i] = i + 1
		}
		for i := len(ids) - 1; i > 0; i-- {
			j := sub.Intn(i + 1)
			ids[i], ids[j] = ids[j], ids[i]
		}
		for i, n := range nodes {
			n.Id = ids[i]
		}
		sort.Slice(nodes, func(a, b int) bool { return nodes[a].Id < nodes[b].Id })
	}
	return genetics.NewGenome(1, traits, nodes, genes)
}

// StartKind enumerates how a world's population comes into being.
type StartKind int

const (
	StartBuilt StartKind = iota
	StartShipped
	StartRandomPop
	StartReadBack
)

// World is one simulated evolutionary world.
type World struct {
	T        *Tape
	Opts     *neat.Options
	Ctx      context.Context
	Cancel   context.CancelFunc
	Kind     StartKind
	KindName string
	Start    *genetics.Genome // nil for random populations
	Pop      *genetics.Population
	Exec     genetics.PopulationEpochExecutor
	Land     *Landscape
	Gen      int
	// Ancestors are the IO nodes every descendant must keep
	Ancestors []IONode
	// LibSeed is the seed the library's random source was given before the world was built
	LibSeed int64
	// Reconfigured counts the option changes made between epochs
	Reconfigured int
	// Checkpoints counts the save / restore steps taken in mid-run
	Checkpoints int
	// ConstructErr is set when the constructor itself failed
	ConstructErr error
	// GenelessAtStart counts constructor-made genomes without genes (NewPopulationRandom precondition violations)
	GenelessAtStart int
}

// WorldSpec says which kinds of start are allowed.
type WorldSpec struct {
	Prof         OptProfile
	Genome       GenomeSpec
	AllowRandom  bool // NewPopulationRandom worlds
	AllowShipped bool
	AllowRead    bool  // write the constructed population and read it back
	AllowModular bool  // a share of the hand-built start genomes carries modules
	Landscapes   []int // allowed landscape kinds (nil = all)
}

// NewWorld draws and constructs a world. The library RNG is seeded first.
func NewWorld(t *Tape, spec WorldSpec) *World {
	QuietLogs()
	seed := SeedLibrary(t)
	w := &World{T: t, LibSeed: seed}
	w.Opts = DrawOptions(t, spec.Prof)
	w.Ctx, w.Cancel = context.WithCancel(neat.NewContext(context.Background(), w.Opts))
	weights := []int{5, 0, 0}
	if spec.AllowShipped {
		weights[1] = 3
	}
	if spec.AllowRandom {
		weights[2] = 2
	}
	switch t.Pick("startKind", weights...) {
	case 0:
		w.Kind, w.KindName = StartBuilt, "built"
		if spec.AllowModular && t.Chance("modularStart", 1, 4) {
			w.KindName = "built-modular"
			w.Start = BuildModularGenome(t)
		} else {
			w.Start = BuildGenome(t, spec.Genome)
		}
	case 1:
		name := shippedPlain[t.Draw("shipped", len(shippedPlain))]
		w.Kind, w.KindName = StartShipped, "shipped:"+name
		g, err := LoadShipped(name)
		if err != nil {
			w.ConstructErr = fmt.Errorf("cannot load shipped genome %s: %w", name, err)
			return w
		}
		w.Start = g
	case 2:
		w.Kind, w.KindName = StartRandomPop, "random"
	}
	var err error
	if w.Kind == StartRandomPop {
		in := t.Range("rIn", 2, 4)
		out := t.Range("rOut", 1, 2)
		maxHidden := t.Range("rMaxHidden", 1, 4)
		rec := !spec.Genome.FeedForwardOnly && t.Chance("rRec", 1, 2)
		linkProb := 0.3 + 0.7*t.Float("rLinkProb")
		w.KindName = fmt.Sprintf("random(in=%d,out=%d,maxHidden=%d,rec=%t,p=%.2f)", in, out, maxHidden, rec, linkProb)
		w.Pop, err = genetics.NewPopulationRandom(in, out, maxHidden, rec, linkProb, w.Opts)
		if err == nil {
			for _, o := range w.Pop.Organisms {
				if len(o.Genotype.Genes) == 0 {
					w.GenelessAtStart++
				}
			}
			if len(w.Pop.Organisms) > 0 {
				w.Ancestors = IONodes(w.Pop.Organisms[0].Genotype)
			}
		}
	} else {
		w.Ancestors = IONodes(w.Start)
		w.Pop, err = genetics.NewPopulation(w.Start, w.Opts)
		if err == nil && spec.AllowRead && t.Chance("readBack", 1, 4) {
			var buf bytes.Buffer
			if err = w.Pop.Write(&buf); err == nil {
				w.Pop, err = genetics.ReadPopulation(bytes.NewReader(buf.Bytes()), w.Opts)
				w.Kind, w.KindName = StartReadBack, w.KindName+"+readback"
			}
		}
	}
	w.ConstructErr = err
	if w.Opts.EpochExecutorType == neat.EpochExecutorTypeParallel {
		w.Exec = &genetics.ParallelPopulationEpochExecutor{}
	} else {
		w.Exec = &genetics.SequentialPopulationEpochExecutor{}
	}
	w.Land = DrawLandscape(t, spec.Landscapes)
	return w
}

// Checkpoint writes the living population to the simulated disk and carries on with what ReadPopulation restores from
// it (a save / restore in mid-run: the restored population is heterogeneous, unlike one read back right after
// construction). It returns the error of the write or the read.
func (w *World) Checkpoint() error {
	var buf bytes.Buffer
	if err := w.Pop.Write(&buf); err != nil {
		return err
	}
	pop, err := genetics.ReadPopulation(NewSimReader(w.T, buf.Bytes()), w.Opts)
	if err != nil {
		return err
	}
	w.Pop = pop
	w.Checkpoints++
	return nil
}

// Reconfigure replaces the world's options by a new Options object with some settings changed (never the population
// size) and a new context carrying it: a caller may tune a run between epochs. It returns what changed.
func (w *World) Reconfigure() string {
	t := w.T
	o := *w.Opts
	what := ""
	switch t.Draw("reconf.kind", 5) {
	case 0:
		o.SurvivalThresh = 0.01 + 0.99*t.Float("reconf.surv")
		what = fmt.Sprintf("surv=%.3g", o.SurvivalThresh)
	case 1:
		o.AgeSignificance = 1 + 2*t.Float("reconf.age")
		what = fmt.Sprintf("ageSig=%.3g", o.AgeSignificance)
	case 2:
		o.DropOffAge = t.Range("reconf.dropoff", 1, 20)
		what = fmt.Sprintf("dropoff=%d", o.DropOffAge)
	case 3:
		o.CompatThreshold = 0.2 + 6*t.Float("reconf.thr")
		what = fmt.Sprintf("thr=%.3g", o.CompatThreshold)
	case 4:
		o.MutateAddNodeProb, o.MutateAddLinkProb, o.MateOnlyProb = t.Float("reconf.an")*0.6, t.Float("reconf.al")*0.8, t.Float("reconf.mo")
		what = "mutation rates"
	}
	w.Opts = &o
	w.Cancel()
	w.Ctx, w.Cancel = context.WithCancel(neat.NewContext(context.Background(), w.Opts))
	w.Reconfigured++
	return what
}

// Describe is a stable one-line description of the world.
func (w *World) Describe() string {
	ln := ""
	if w.Land != nil {
		ln = w.Land.Name()
	}
	return fmt.Sprintf("start=%s land=%s %s", w.KindName, ln, OptSummary(w.Opts))
}

// ---------- fitness landscapes ----------

const (
	LandConst = iota
	LandZero
	LandUniform
	LandHeavy
	LandDominant
	LandTies
	LandStructural
	LandDistinct
	LandHuge
	LandOscillate
	LandTiny
	LandTiesPositive
	LandNearlyEqual
	numLands // the kinds below are opt-in (named in WorldSpec.Landscapes), not part of "all"
	LandSpeciesZero
	LandSubnormalUnits
	LandNearMax
)

var landNames = []string{"const", "zero", "uniform", "heavy", "dominant", "ties", "structural", "distinct", "huge", "oscillate", "tiny", "ties-positive", "nearly-equal", "", "species-zero", "subnormal-units", "near-max"}

// Landscape assigns finite, non-negative fitness deterministically from (seed, generation, index, genome shape).
type Landscape struct {
	Kind int
	Seed uint64
}

func DrawLandscape(t *Tape, allowed []int) *Landscape {
	if len(allowed) == 0 {
		allowed = make([]int, numLands)
		for i := range allowed {
			allowed[i] = i
		}
	}
	k := allowed[t.Draw("landscape", len(allowed))]
	return &Landscape{Kind: k, Seed: uint64(t.Draw("landSeed", 1<<30))}
}

func (l *Landscape) Name() string { return landNames[l.Kind] }

// Fitness of organism idx in generation gen.
func (l *Landscape) Fitness(gen, idx int, g *genetics.Genome) float64 {
	r := NewSubRNG(Mix(l.Seed, uint64(gen), uint64(idx)))
	switch l.Kind {
	case LandConst:
		return 1
	case LandZero:
		return 0
	case LandUniform:
		return r.Float() * 10
	case LandHeavy:
		return math.Exp(3 * r.Norm())
	case LandDominant:
		if idx == int(l.Seed%7)%3 {
			return 1000
		}
		return 0.001 + r.Float()*0.01
	case LandTies:
		return float64(r.Intn(3))
	case LandStructural:
		hidden := 0
		for _, n := range g.Nodes {
			if n.NeuronType == network.HiddenNeuron {
				hidden++
			}
		}
		return 1 + float64(len(g.Genes)) + 2*float64(hidden) + r.Float()
	case LandDistinct:
		// distinct positive values, well separated
		return 1 + float64(idx)*0.37 + float64((gen*31+idx*17)%13)*100
	case LandHuge:
		return 1e280 * (1 + r.Float()*1e10)
	case LandOscillate:
		// best fitness rises and falls so that stagnation counters reset and fire
		return (1 + r.Float()) * (1 + float64(gen%4))
	case LandTiny:
		// positive but at the bottom of the float64 range (subnormal and just above): ratios are ordinary, reciprocals overflow
		return (1 + r.Float()*9) * 1e-309
	case LandNearlyEqual:
		// distinct values that differ from the twelfth digit on: a comparison with a tolerance takes them for equal
		return 7.5 * (1 + float64(1+(idx*7+gen*3)%97)*1e-12 + float64(idx)*1e-14)
	case LandSubnormalUnits:
		// small whole multiples of the smallest positive float64: finite, positive, and every quotient and mean of them
		// is rounded to a whole number of units, so ratios are off by tens of percent
		return float64(1+r.Intn(8)) * math.SmallestNonzeroFloat64
	case LandNearMax:
		// finite values at the top of the float64 range: doubling one, or adding two, overflows
		if r.Intn(3) == 0 {
			return math.MaxFloat64 * (0.5 + r.Float()*0.5)
		}
		return 1 + r.Float()*9
	case LandTiesPositive:
		// few distinct positive values: exact ties everywhere, also across the parent cut of a species
		return float64(1 + r.Intn(3))
	}
	return 1
}

// AssignFitness sets the fitness of every organism for generation w.Gen.
func (w *World) AssignFitness() {
	for i, o := range w.Pop.Organisms {
		o.Fitness = w.Land.Fitness(w.Gen, i, o.Genotype)
		if w.Land.Kind == LandSpeciesZero {
			// whole species score exactly zero in some generations (a task on which a whole niche fails), the rest is positive
			o.Fitness = 1 + 4*NewSubRNG(Mix(w.Land.Seed, uint64(w.Gen), uint64(i))).Float()
			if o.Species != nil && Mix(w.Land.Seed, uint64(w.Gen), uint64(o.Species.Id), 77)%3 == 0 {
				o.Fitness = 0
			}
		}
	}
}

// PositiveLands are the landscapes with at least one positive value guaranteed.
var PositiveLands = []int{LandConst, LandUniform, LandHeavy, LandDominant, LandStructural, LandDistinct, LandHuge, LandOscillate, LandTiny, LandTiesPositive, LandNearlyEqual}
