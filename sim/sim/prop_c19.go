package sim

import (
	"bytes"
	"encoding/gob"
	"fmt"
	"math"
	"math/big"
	"sort"
	"time"

	"github.com/yaricom/goNEAT/v4/experiment"
	"github.com/yaricom/goNEAT/v4/neat/genetics"
)

// C19 — result statistics equal their definitions for every series.

func init() {
	Register(&Scenario{
		Prop: "C19", Run: scenarioC19, QuickRuns: 24000, ThoroughRuns: 4000000, Level: "exploration",
		Rule:       "one run = one seeded experiment executed by the real Experiment.Execute with the scripted evaluator (complete, solved early, or cut short by an evaluator error / cancellation); afterwards every experiment- and trial-level aggregate (solved count, success rate, per-trial best fitness / species age / complexity, diversity, epochs per trial and their average, winner statistics per trial and averaged, per-generation champion ages, complexities and series averages, best-organism searches of trial and experiment with and without the solvers-only filter, and the clock-derived ones: average generation duration per trial and per experiment, average trial duration, most recent evaluation instant per trial and per experiment - exact integer functions of the durations and instants the run's simulated or real clock left in the records) is recomputed from the recorded generations by the reference and compared, and every Floats accessor is evaluated on every recorded series (per-species fitness, age and complexity - naturally unsorted), on tape-chosen permutations and prefixes of them (incl. the empty one) against textbook mean, unbiased variance, standard deviation, min, max, sum and the empirical quantile x(ceil(n*p)); a panic is a violation. A case is one series or one aggregate comparison; non-trivial when a series has >= 3 elements out of order or the experiment has a solved and an unsolved trial; distinct by series hash",
		RealParts:  []string{"experiment.Floats, Experiment / Trial / Generation aggregate accessors, Generation.FillPopulationStatistics", "Experiment.Execute producing the records (sequential executor, fake clock)"},
		StubParts:  []string{"GenerationEvaluator (scripted)", "wall clock"},
		Assumes:    []string{"reference meanings are the accessor documentation: solved count = trials with a solved generation; per-trial best = the generation champion of maximal fitness (ties: any of them); winner statistics = first solved generation, averaged over solved trials, -1 when none; trials left unrecorded by an aborted run are zero-valued records", "relative tolerance 1e-9"},
		ProbeNames: []string{"probe.series.unsorted", "probe.series.empty", "probe.series.single", "probe.series.ties", "probe.experiment.cut_short", "probe.experiment.mixed_solved_unsolved", "probe.experiment.none_solved", "probe.best_champion_tie", "probe.record_surgery", "probe.experiment.all_zero_fitness", "probe.read_into_used_object", "probe.series.large_offset", "probe.series.near_max", "probe.series.updated_in_place", "probe.experiment.modular_champions", "probe.best_among_solvers"},
	})
}

func eqStat(a, b float64) bool {
	if math.IsNaN(a) && math.IsNaN(b) {
		return true
	}
	if math.IsInf(a, 0) || math.IsInf(b, 0) {
		return a == b
	}
	return closeRel(a, b)
}

type refStats struct {
	min, max, sum, mean, variance, std, median, q25, q75 float64
}

func refSeries(x []float64) refStats {
	n := len(x)
	nan := math.NaN()
	if n == 0 {
		return refStats{nan, nan, 0, nan, nan, nan, nan, nan, nan}
	}
	r := refStats{min: x[0], max: x[0]}
	for _, v := range x {
		r.sum += v
		if v < r.min {
			r.min = v
		}
		if v > r.max {
			r.max = v
		}
	}
	r.mean = r.sum / float64(n)
	// the variance is taken in 256-bit arithmetic: in float64 the textbook formula itself loses digits for series of
	// large magnitude and small spread, and the reference must not be the less accurate side
	if n == 1 {
		r.variance = math.NaN() // 0/0: the unbiased estimator is undefined
	} else if math.IsInf(r.sum, 0) || math.IsNaN(r.sum) {
		r.variance = math.NaN()
	} else {
		const prec = 256
		bsum := new(big.Float).SetPrec(prec)
		for _, v := range x {
			bsum.Add(bsum, new(big.Float).SetPrec(prec).SetFloat64(v))
		}
		bmean := new(big.Float).SetPrec(prec).Quo(bsum, new(big.Float).SetPrec(prec).SetInt64(int64(n)))
		bss := new(big.Float).SetPrec(prec)
		for _, v := range x {
			d := new(big.Float).SetPrec(prec).Sub(new(big.Float).SetPrec(prec).SetFloat64(v), bmean)
			bss.Add(bss, d.Mul(d, d))
		}
		bss.Quo(bss, new(big.Float).SetPrec(prec).SetInt64(int64(n-1)))
		r.variance, _ = bss.Float64()
		// where a squared deviation leaves the float64 range (deviations beyond 1e150) the textbook evaluation in
		// float64 overflows: such series are not judged (the comparison below skips an infinite reference and counts it)
		for _, v := range x {
			if math.Abs(v-r.mean) > 1e150 {
				r.variance = math.Inf(1)
			}
		}
	}
	r.std = math.Sqrt(r.variance)
	s := append([]float64(nil), x...)
	sort.Float64s(s)
	q := func(p float64) float64 {
		k := int(math.Ceil(float64(n)*p - 1e-12))
		if k < 1 {
			k = 1
		}
		if k > n {
			k = n
		}
		return s[k-1]
	}
	r.median, r.q25, r.q75 = q(0.5), q(0.25), q(0.75)
	return r
}

func checkSeries(c *RunCtx, x experiment.Floats, what string) {
	ref := refSeries(x)
	var got refStats
	var mv []float64
	c.Lib("Floats accessors", func() {
		got.min, got.max, got.sum, got.mean = x.Min(), x.Max(), x.Sum(), x.Mean()
		got.variance, got.std = x.Variance(), x.StdDev()
		mv = x.MeanVariance()
		got.median, got.q25, got.q75 = x.Median(), x.Q25(), x.Q75()
	})
	cmp := func(name string, g, w float64) {
		if len(x) >= 2 && (math.IsInf(w, 0) || math.IsNaN(w)) {
			// the textbook value overflows float64 (squares of values near 1e154 and beyond): not judged
			c.Count("skipped.reference-overflow")
			return
		}
		if !eqStat(g, w) {
			c.Fail("series:"+name, "%s of %s = %v, the definition gives %v; series %v", name, what, g, w, []float64(x))
		}
	}
	cmp("Min", got.min, ref.min)
	cmp("Max", got.max, ref.max)
	cmp("Sum", got.sum, ref.sum)
	cmp("Mean", got.mean, ref.mean)
	if len(x) != 1 { // unbiased variance of one value is undefined (0/0); either NaN or 0 would be arguable, not judged
		cmp("Variance", got.variance, ref.variance)
		cmp("StdDev", got.std, ref.std)
		if len(mv) == 2 {
			cmp("MeanVariance[1]", mv[1], ref.variance)
		}
	}
	if len(mv) != 2 {
		c.Fail("series:MeanVariance", "MeanVariance of %s returned %d values", what, len(mv))
	}
	cmp("MeanVariance[0]", mv[0], ref.mean)
	cmp("Median", got.median, ref.median)
	cmp("Q25", got.q25, ref.q25)
	cmp("Q75", got.q75, ref.q75)
	h := uint64(len(x))
	unsorted, ties := false, false
	for i, v := range x {
		h = Mix(h, math.Float64bits(v))
		if i > 0 && v < x[i-1] {
			unsorted = true
		}
		if i > 0 && v == x[i-1] {
			ties = true
		}
	}
	c.State(h)
	c.Steps++
	switch {
	case len(x) == 0:
		c.Count("probe.series.empty")
	case len(x) == 1:
		c.Count("probe.series.single")
	}
	if ties {
		c.Count("probe.series.ties")
	}
	if unsorted {
		c.Count("probe.series.unsorted")
		if len(x) >= 3 {
			c.Nontrivial(h)
		}
	}
}

func scenarioC19(c *RunCtx) {
	t := c.T
	maxTrials, maxGens, maxPop := 3, 5, 14
	if c.Thorough {
		maxTrials, maxGens, maxPop = 5, 10, 30
	}
	s := DrawExpSim(c, maxTrials, maxGens, maxPop, false)
	s.Opts.CompatThreshold = 0.2 + 2*t.Float("ct") // several species => series with several elements
	// fitness need not be positive anywhere: all-zero and small-integer (ties, zeros) landscapes are legal
	switch t.Pick("zeroFitness", 5, 1, 1) {
	case 1:
		s.Land = &Landscape{Kind: LandZero, Seed: 1}
		c.Count("probe.experiment.all_zero_fitness")
	case 2:
		s.Land = &Landscape{Kind: LandTies, Seed: uint64(t.Draw("ties.seed", 1<<20))}
	}
	switch t.Pick("cut", 3, 1, 1) {
	case 1:
		s.Faults = []FaultSpec{{Kind: FaultEvalError, Trial: t.Draw("f.trial", s.Opts.NumRuns), Gen: t.Draw("f.gen", s.Opts.NumGenerations)}}
	case 2:
		s.Faults = []FaultSpec{{Kind: FaultCancelEvalExit, Trial: t.Draw("f.trial", s.Opts.NumRuns), Gen: t.Draw("f.gen", s.Opts.NumGenerations)}}
	}
	// champions whose genome carries modules: their complexity is that of the expressed network, control nodes and
	// module links included. Offspring by mutation only (crossover of modular genomes lets them grow without limit,
	// which no listed property is about).
	modular := t.Chance("modularStart", 1, 6)
	if modular {
		s.Start = BuildModularGenome(t)
		s.Opts.MutateOnlyProb = 1
		c.Count("probe.experiment.modular_champions")
	}
	c.Sample = s.Describe()
	seedLib(int64(t.Draw("exec.libseed", 1<<31)))
	s.Run(c.LibSoft)
	c.SimNanos += int64(s.SimElapsed)
	if modular && s.Err != nil && s.FaultSeq < 0 {
		// evolution of modular genomes is outside the listed properties: an epoch error there is not judged
		c.Skip("modular-experiment-error")
	}
	c.Op("Execute: %s -> err=%v", s.Describe(), s.Err)
	if s.Err != nil {
		c.Count("probe.experiment.cut_short")
	}
	exp := s.Exp
	surgery := ""
	// The accessors are defined over whatever is recorded, not only over what Execute records: a share of the runs edits
	// the record first (generations kept most-recent-first or shuffled, an extra generation recorded after the winner,
	// another generation marked solved, a truncated trial). The reference recomputes from the edited record.
	if len(exp.Trials) > 0 && t.Chance("record.surgery", 1, 3) {
		c.Count("probe.record_surgery")
		surgery = RecordSurgery(t, exp)
		c.Op("record surgery:%s", surgery)
	}
	ctx := func() string { return "experiment: " + s.Describe() + " record surgery:[" + surgery + "]" }

	// ----- Floats on every recorded series, permutations and prefixes -----
	series := 0
	for ti := range exp.Trials {
		tr := &exp.Trials[ti]
		for gi := range tr.Generations {
			g := &tr.Generations[gi]
			for _, sx := range []struct {
				n string
				x experiment.Floats
			}{{"Fitness", g.Fitness}, {"Age", g.Age}, {"Complexity", g.Complexity}} {
				what := fmt.Sprintf("trial %d generation %d %s", ti, gi, sx.n)
				checkSeries(c, sx.x, what)
				series++
				if len(sx.x) > 1 && t.Chance("perm", 1, 3) {
					p := append(experiment.Floats(nil), sx.x...)
					rng := t.Sub("perm.seed")
					for i := len(p) - 1; i > 0; i-- {
						j := rng.Intn(i + 1)
						p[i], p[j] = p[j], p[i]
					}
					checkSeries(c, p, what+" (permuted)")
					cut := t.Draw("prefix", len(p)+1)
					checkSeries(c, p[:cut], what+" (prefix of a permutation)")
				}
			}
		}
		var f, a, cx experiment.Floats
		c.Lib("Trial series accessors", func() {
			checkSeries(c, tr.ChampionsFitness(), fmt.Sprintf("trial %d ChampionsFitness", ti))
			checkSeries(c, tr.Diversity(), fmt.Sprintf("trial %d Diversity", ti))
			f, a, cx = tr.Average()
		})
		checkSeries(c, f, fmt.Sprintf("trial %d Average fitness", ti))
		checkSeries(c, a, fmt.Sprintf("trial %d Average age", ti))
		checkSeries(c, cx, fmt.Sprintf("trial %d Average complexity", ti))
	}
	checkSeries(c, experiment.Floats{}, "the empty series")
	// a harness-made heavy series
	{
		rng := t.Sub("synthetic")
		n := t.Range("synthetic.n", 1, 40)
		x := make(experiment.Floats, n)
		for i := range x {
			x[i] = math.Round(rng.Norm()*1000) / 10
			if rng.Intn(5) == 0 && i > 0 {
				x[i] = x[i-1]
			}
		}
		checkSeries(c, x, "a synthetic series")
		// large magnitude, small spread (fitness such as 1e8 minus a small error): shortcuts that subtract large
		// squares lose every significant digit here, the two-pass definition does not
		off := []float64{1e6, 1e8, 1e10, -3e10, 1e12}[t.Draw("synthetic.offset", 5)]
		y := make(experiment.Floats, t.Range("synthetic.m", 2, 12))
		for i := range y {
			y[i] = off + float64(rng.Intn(9)+1)/4
		}
		checkSeries(c, y, "a synthetic series of large magnitude and small spread")
		c.Count("probe.series.large_offset")
		// finite values next to the largest float64: their sum is not representable, their mean is (it lies between
		// the smallest and the largest element). Judged: minimum, maximum, the quantiles (order statistics) and the mean
		// against a 256-bit reference; sum, variance and standard deviation overflow by definition and are left alone.
		if t.Chance("synthetic.nearMax", 1, 8) {
			v := make(experiment.Floats, t.Range("synthetic.nearMax.n", 2, 6))
			for i := range v {
				v[i] = math.MaxFloat64 * (0.5 + 0.5*rng.Float())
			}
			checkNearMaxSeries(c, v)
			c.Count("probe.series.near_max")
		}
		// a series its owner keeps updating in place between queries (the same backing array, the same length: a running
		// window of results): every query must describe the contents of the moment
		z := append(experiment.Floats(nil), x...)
		for k := t.Range("inplace.rounds", 1, 3); k > 0; k-- {
			checkSeries(c, z, "a series that is updated in place between queries")
			switch t.Draw("inplace.kind", 3) {
			case 0:
				z[t.Draw("inplace.at", len(z))] = math.Round(rng.Norm()*1000) / 10
			case 1:
				for i, j := 0, len(z)-1; i < j; i, j = i+1, j-1 {
					z[i], z[j] = z[j], z[i]
				}
				z[len(z)-1] += 1000
			case 2:
				for i := range z {
					z[i] = -z[i] * 3
				}
			}
		}
		checkSeries(c, z, "a series that was updated in place between queries")
		c.Count("probe.series.updated_in_place")
	}

	checkAggregates(c, exp, ctx)
	// The same record, saved and then read into an experiment object that was used before (it holds another experiment
	// whose winner statistics were queried, so every cache an accessor may keep is warm): the aggregates of what is
	// recorded now must not depend on what the object held earlier.
	if len(exp.Trials) > 0 && t.Chance("reusedObject", 1, 3) {
		c.Count("probe.read_into_used_object")
		var buf bytes.Buffer
		var werr error
		c.LibSoft("Experiment.Write", func() { werr = exp.Write(&buf) })
		if werr == nil {
			used := &experiment.Experiment{Id: 99, Name: "used"}
			// the earlier content: the same trials with other winners, all accessors called once
			used.Trials = make(experiment.Trials, len(exp.Trials)+t.Draw("used.extra", 2))
			for i := range used.Trials {
				src := exp.Trials[i%len(exp.Trials)]
				used.Trials[i].Id = i
				used.Trials[i].Generations = append(experiment.Generations(nil), src.Generations...)
				for gi := range used.Trials[i].Generations {
					g := &used.Trials[i].Generations[gi]
					if g.Champion != nil && gi == 0 {
						g.Solved, g.WinnerNodes, g.WinnerGenes, g.WinnerEvals, g.Diversity = true, 41+i, 43+i, 4700+i, 17+i
					}
				}
			}
			c.LibSoft("accessors of the earlier content", func() {
				for i := range used.Trials {
					used.Trials[i].WinnerStatistics()
					used.Trials[i].Solved()
				}
				used.AvgWinnerStatistics()
				used.BestFitness()
				used.TrialsSolved()
			})
			var rerr error
			c.LibSoft("Experiment.Read", func() { rerr = used.Read(bytes.NewReader(buf.Bytes())) })
			if rerr == nil {
				checkAggregates(c, used, func() string { return ctx() + " (record read into a previously used experiment object)" })
			}
		}
	}
	// The recorded generations of a trial rearranged in place (reversed or rotated: the same records in the same backing
	// array) after its winner statistics were queried through the trial object itself, so whatever the accessor cached
	// is warm. Only trials with exactly one solved generation: their winner is the same generation in every order.
	if len(exp.Trials) > 0 && t.Chance("reorderAfterQuery", 1, 3) {
		for ti := range exp.Trials {
			tr := &exp.Trials[ti]
			nSolved := 0
			for gi := range tr.Generations {
				if tr.Generations[gi].Solved {
					nSolved++
				}
			}
			if len(tr.Generations) < 2 || nSolved != 1 {
				continue
			}
			c.Lib("Trial.WinnerStatistics", func() { tr.WinnerStatistics() })
			how := "reversed"
			if k := t.Draw("reorder.rotate", len(tr.Generations)); k == 0 {
				for i, j := 0, len(tr.Generations)-1; i < j; i, j = i+1, j-1 {
					tr.Generations[i], tr.Generations[j] = tr.Generations[j], tr.Generations[i]
				}
			} else {
				how = fmt.Sprintf("rotated by %d", k)
				rot := append(append(experiment.Generations(nil), tr.Generations[k:]...), tr.Generations[:k]...)
				copy(tr.Generations, rot)
			}
			var wn, wg, we, wd int
			c.Lib("Trial.WinnerStatistics", func() { wn, wg, we, wd = tr.WinnerStatistics() })
			for gi := range tr.Generations {
				if g := &tr.Generations[gi]; g.Solved && (wn != g.WinnerNodes || wg != g.WinnerGenes || we != g.WinnerEvals || wd != g.Diversity) {
					c.Fail("aggregate:Trial.WinnerStatistics", "trial %d: after its generations were %s in place (following an earlier query of the same trial object) WinnerStatistics() = (%d, %d, %d, %d); its only solved generation holds (%d, %d, %d, %d)\n%s", ti, how, wn, wg, we, wd, g.WinnerNodes, g.WinnerGenes, g.WinnerEvals, g.Diversity, ctx())
				}
			}
			c.Count("probe.trial.rearranged_after_query")
		}
		checkAggregates(c, exp, func() string {
			return ctx() + " (generations of single-winner trials rearranged in place after a query)"
		})
	}
	// One trial record, saved with Trial.Encode and read with Trial.Decode into a trial object that was used before (it
	// holds another trial, solved with other winner sizes, whose winner statistics were queried): same rule.
	if len(exp.Trials) > 0 && t.Chance("reusedTrial", 1, 3) {
		c.Count("probe.trial_decoded_into_used_object")
		src := &exp.Trials[t.Draw("reusedTrial.which", len(exp.Trials))]
		var buf bytes.Buffer
		var werr error
		c.LibSoft("Trial.Encode", func() { werr = src.Encode(gob.NewEncoder(&buf)) })
		if werr == nil {
			usedExp := &experiment.Experiment{Id: 98, Name: "used-trial", Trials: make(experiment.Trials, 1)}
			used := &usedExp.Trials[0]
			used.Id = 77
			used.Generations = append(experiment.Generations(nil), src.Generations...)
			if len(used.Generations) == 0 {
				used.Generations = experiment.Generations{experiment.Generation{Id: 0}}
			}
			g0 := &used.Generations[0]
			g0.Solved, g0.WinnerNodes, g0.WinnerGenes, g0.WinnerEvals, g0.Diversity = true, 141, 143, 14700, 117
			c.LibSoft("accessors of the earlier content", func() {
				used.WinnerStatistics()
				used.Solved()
				usedExp.AvgWinnerStatistics()
			})
			var rerr error
			c.LibSoft("Trial.Decode", func() { rerr = used.Decode(gob.NewDecoder(bytes.NewReader(buf.Bytes()))) })
			if rerr == nil {
				checkAggregates(c, usedExp, func() string {
					return ctx() + " (one trial record read with Trial.Decode into a previously used trial object)"
				})
			} else {
				c.Count("observe.trial_decode_error")
			}
		}
	}
	_ = series
}

// checkAggregates recomputes every experiment- and trial-level aggregate from the recorded generations.
func checkAggregates(c *RunCtx, exp *experiment.Experiment, ctx func() string) {
	// ----- aggregates recomputed from the recorded generations -----
	nT := len(exp.Trials)
	solved := 0
	type win struct{ nodes, genes, evals, div int }
	var wins []win
	wantBestFit := make([]float64, nT)
	wantEpochs := make([]float64, nT)
	wantDiv := make([]float64, nT)
	bestCands := make([][]*genetics.Organism, nT)
	for ti := range exp.Trials {
		tr := &exp.Trials[ti]
		trSolved := false
		wantEpochs[ti] = float64(len(tr.Generations))
		dsum := 0.0
		best := math.Inf(-1)
		for gi := range tr.Generations {
			g := &tr.Generations[gi]
			dsum += float64(g.Diversity)
			if g.Solved && !trSolved {
				trSolved = true
				wins = append(wins, win{g.WinnerNodes, g.WinnerGenes, g.WinnerEvals, g.Diversity})
			}
			if g.Champion != nil && g.Champion.Fitness > best {
				best = g.Champion.Fitness
			}
		}
		for gi := range tr.Generations {
			if ch := tr.Generations[gi].Champion; ch != nil && ch.Fitness == best {
				bestCands[ti] = append(bestCands[ti], ch)
			}
		}
		if len(bestCands[ti]) > 1 {
			c.Count("probe.best_champion_tie")
		}
		if len(tr.Generations) > 0 {
			wantBestFit[ti] = best
			wantDiv[ti] = dsum / float64(len(tr.Generations))
		} else {
			wantDiv[ti] = math.NaN()
		}
		if trSolved {
			solved++
		}
		var gotSolved bool
		c.Lib("Trial.Solved", func() { gotSolved = tr.Solved() })
		if gotSolved != trSolved {
			c.Fail("aggregate:Trial.Solved", "trial %d: Solved() = %t, the recorded generations say %t\n%s", ti, gotSolved, trSolved, ctx())
		}
	}
	// ----- per-trial series and searches (added in wave 7): champion ages / complexities per generation, the per-generation
	// averages, the trial's winner statistics, and the best-organism searches with and without the solvers-only filter -----
	allHaveChampion := true
	for ti := range exp.Trials {
		tr := &exp.Trials[ti]
		for gi := range tr.Generations {
			if tr.Generations[gi].Champion == nil {
				allHaveChampion = false
			}
		}
	}
	cxOf := func(ch *genetics.Organism) float64 {
		v := 0.0
		c.Lib("Organism.Phenotype", func() {
			if ph, err := ch.Phenotype(); err == nil {
				v = float64(ph.NodeCount() + ph.LinkCount())
			}
		})
		return v
	}
	bestOf := func(tr *experiment.Trial, onlySolved bool) (float64, int) {
		best, n := math.Inf(-1), 0
		for gi := range tr.Generations {
			g := &tr.Generations[gi]
			if g.Champion == nil || (onlySolved && !g.Solved) {
				continue
			}
			n++
			if g.Champion.Fitness > best {
				best = g.Champion.Fitness
			}
		}
		return best, n
	}
	if allHaveChampion {
		for ti := range exp.Trials {
			tr := &exp.Trials[ti]
			var ages, cxs, af, aa, ac experiment.Floats
			c.Lib("Trial per-generation series", func() {
				ages, cxs = tr.ChampionSpeciesAges(), tr.ChampionsComplexities()
				af, aa, ac = tr.Average()
			})
			if len(ages) != len(tr.Generations) || len(cxs) != len(tr.Generations) || len(af) != len(tr.Generations) || len(aa) != len(tr.Generations) || len(ac) != len(tr.Generations) {
				c.Fail("aggregate:length", "trial %d: the per-generation series do not have one entry per generation\n%s", ti, ctx())
			}
			for gi := range tr.Generations {
				g := &tr.Generations[gi]
				age := 0.0
				if g.Champion.Species != nil {
					age = float64(g.Champion.Species.Age)
				}
				if ages[gi] != age {
					c.Fail("aggregate:ChampionSpeciesAges", "trial %d: ChampionSpeciesAges()[%d] = %v, the champion of that generation belongs to a species of age %v\n%s", ti, gi, ages[gi], age, ctx())
				}
				if want := cxOf(g.Champion); cxs[gi] != want {
					c.Fail("aggregate:ChampionsComplexities", "trial %d: ChampionsComplexities()[%d] = %v, the champion's phenotype has nodes+links = %v\n%s", ti, gi, cxs[gi], want, ctx())
				}
				for _, x := range []struct {
					n   string
					got float64
					ser experiment.Floats
				}{{"fitness", af[gi], g.Fitness}, {"age", aa[gi], g.Age}, {"complexity", ac[gi], g.Complexity}} {
					if want := refSeries(x.ser).mean; !eqStat(x.got, want) {
						c.Fail("aggregate:Trial.Average", "trial %d: Average() %s[%d] = %v, the recorded series %v has mean %v\n%s", ti, x.n, gi, x.got, x.ser, want, ctx())
					}
				}
			}
			// the trial's winner statistics: those of its first solved generation (nothing is said about unsolved trials
			// that have generations; a trial without generations reports -1)
			cp := *tr
			cp.WinnerGeneration = nil
			var wn, wg, we, wd int
			c.Lib("Trial.WinnerStatistics", func() { wn, wg, we, wd = cp.WinnerStatistics() })
			for gi := range tr.Generations {
				if g := &tr.Generations[gi]; g.Solved {
					if wn != g.WinnerNodes || wg != g.WinnerGenes || we != g.WinnerEvals || wd != g.Diversity {
						c.Fail("aggregate:Trial.WinnerStatistics", "trial %d: WinnerStatistics() = (%d, %d, %d, %d), its first solved generation (#%d in the record) holds (%d, %d, %d, %d)\n%s", ti, wn, wg, we, wd, gi, g.WinnerNodes, g.WinnerGenes, g.WinnerEvals, g.Diversity, ctx())
					}
					break
				}
			}
			if len(tr.Generations) == 0 && (wn != -1 || wg != -1 || we != -1 || wd != -1) {
				c.Fail("aggregate:Trial.WinnerStatistics", "trial %d has no generations but WinnerStatistics() = (%d, %d, %d, %d), expected -1 each\n%s", ti, wn, wg, we, wd, ctx())
			}
			for _, only := range []bool{false, true} {
				want, n := bestOf(tr, only)
				var org *genetics.Organism
				var ok bool
				c.Lib("Trial.BestOrganism", func() { org, ok = tr.BestOrganism(only) })
				if ok != (n > 0) || (ok && org == nil) {
					c.Fail("aggregate:Trial.BestOrganism", "trial %d: BestOrganism(onlySolvers=%t) found=%t (organism nil: %t) with %d candidate champions recorded\n%s", ti, only, ok, org == nil, n, ctx())
				}
				if ok && org.Fitness != want {
					c.Fail("aggregate:Trial.BestOrganism", "trial %d: BestOrganism(onlySolvers=%t) has fitness %v, the best of the %d candidate champions has %v\n%s", ti, only, org.Fitness, n, want, ctx())
				}
				if ok {
					member := false
					for gi := range tr.Generations {
						if g := &tr.Generations[gi]; g.Champion == org && (!only || g.Solved) {
							member = true
						}
					}
					if !member {
						c.Fail("aggregate:Trial.BestOrganism", "trial %d: BestOrganism(onlySolvers=%t) returned an organism that is not a recorded champion of the candidates\n%s", ti, only, ctx())
					}
				}
				if only && n > 0 {
					c.Count("probe.best_among_solvers")
				}
			}
		}
		for _, only := range []bool{false, true} {
			best, cands := math.Inf(-1), 0
			for ti := range exp.Trials {
				if b, n := bestOf(&exp.Trials[ti], only); n > 0 {
					cands++
					if b > best {
						best = b
					}
				}
			}
			var org *genetics.Organism
			var idx int
			var ok bool
			c.Lib("Experiment.BestOrganism", func() { org, idx, ok = exp.BestOrganism(only) })
			if ok != (cands > 0) || (ok && org == nil) {
				c.Fail("aggregate:Experiment.BestOrganism", "BestOrganism(onlySolvers=%t) found=%t with %d trials that have candidate champions\n%s", only, ok, cands, ctx())
			}
			if ok {
				if org.Fitness != best {
					c.Fail("aggregate:Experiment.BestOrganism", "BestOrganism(onlySolvers=%t) has fitness %v, the best candidate champion over all trials has %v\n%s", only, org.Fitness, best, ctx())
				}
				okTrial := idx >= 0 && idx < nT
				if okTrial {
					b, n := bestOf(&exp.Trials[idx], only)
					okTrial = n > 0 && b == best
				}
				if !okTrial {
					c.Fail("aggregate:Experiment.BestOrganism", "BestOrganism(onlySolvers=%t) names trial %d, which does not hold a candidate champion of the best fitness %v\n%s", only, idx, best, ctx())
				}
			} else if idx != -1 {
				c.Fail("aggregate:Experiment.BestOrganism", "BestOrganism(onlySolvers=%t) found nothing but names trial %d instead of -1\n%s", only, idx, ctx())
			}
		}
	} else {
		c.Count("observe.record_without_champion")
	}
	{
		var got float64
		c.Lib("Experiment.AvgGenerationsPerTrial", func() { got = exp.AvgGenerationsPerTrial() })
		want := 0.0
		for _, e := range wantEpochs {
			want += e
		}
		if nT > 0 {
			want /= float64(nT)
		}
		if !eqStat(got, want) {
			c.Fail("aggregate:AvgGenerationsPerTrial", "AvgGenerationsPerTrial() = %v, the %d trials record %v generations on average\n%s", got, nT, want, ctx())
		}
	}
	checkTimeAggregates(c, exp, ctx)
	var gotSolvedN int
	var gotRate float64
	var gotBestFit, gotBestAge, gotBestCx, gotDiv, gotEpochs experiment.Floats
	var wn, wg, we, wd float64
	var gotAnySolved bool
	c.Lib("Experiment aggregates", func() {
		gotSolvedN = exp.TrialsSolved()
		gotRate = exp.SuccessRate()
		gotBestFit = exp.BestFitness()
		gotBestAge = exp.BestSpeciesAge()
		gotBestCx = exp.BestComplexity()
		gotDiv = exp.AvgDiversity()
		gotEpochs = exp.EpochsPerTrial()
		wn, wg, we, wd = exp.AvgWinnerStatistics()
		gotAnySolved = exp.Solved()
	})
	if gotSolvedN != solved {
		c.Fail("aggregate:TrialsSolved", "TrialsSolved() = %d, %d trials have a solved generation\n%s", gotSolvedN, solved, ctx())
	}
	if gotAnySolved != (solved > 0) {
		c.Fail("aggregate:Solved", "Solved() = %t with %d solved trials\n%s", gotAnySolved, solved, ctx())
	}
	wantRate := 0.0
	if nT > 0 {
		wantRate = float64(solved) / float64(nT)
	}
	if !eqStat(gotRate, wantRate) {
		c.Fail("aggregate:SuccessRate", "SuccessRate() = %v, %d of %d trials are solved\n%s", gotRate, solved, nT, ctx())
	}
	if solved > 0 && solved < nT {
		c.Count("probe.experiment.mixed_solved_unsolved")
		c.Nontrivial(Mix(uint64(solved), uint64(nT), 99))
	}
	if solved == 0 {
		c.Count("probe.experiment.none_solved")
		if wn != -1 || wg != -1 || we != -1 || wd != -1 {
			c.Fail("aggregate:AvgWinnerStatistics", "no trial is solved but AvgWinnerStatistics() = (%v, %v, %v, %v), expected -1 each\n%s", wn, wg, we, wd, ctx())
		}
	} else {
		var sn, sg, se, sd float64
		for _, w := range wins {
			sn += float64(w.nodes)
			sg += float64(w.genes)
			se += float64(w.evals)
			sd += float64(w.div)
		}
		k := float64(len(wins))
		if !eqStat(wn, sn/k) || !eqStat(wg, sg/k) || !eqStat(we, se/k) || !eqStat(wd, sd/k) {
			c.Fail("aggregate:AvgWinnerStatistics", "AvgWinnerStatistics() = (%v, %v, %v, %v), the first solved generations of the %d solved trials average (%v, %v, %v, %v)\n%s", wn, wg, we, wd, len(wins), sn/k, sg/k, se/k, sd/k, ctx())
		}
	}
	for ti := 0; ti < nT; ti++ {
		if len(gotBestFit) != nT || len(gotDiv) != nT || len(gotEpochs) != nT || len(gotBestAge) != nT || len(gotBestCx) != nT {
			c.Fail("aggregate:length", "per-trial aggregates do not have one entry per trial\n%s", ctx())
		}
		if !eqStat(gotBestFit[ti], wantBestFit[ti]) {
			c.Fail("aggregate:BestFitness", "BestFitness()[%d] = %v, the best generation champion has %v\n%s", ti, gotBestFit[ti], wantBestFit[ti], ctx())
		}
		if !eqStat(gotDiv[ti], wantDiv[ti]) {
			c.Fail("aggregate:AvgDiversity", "AvgDiversity()[%d] = %v, the recorded generations average %v\n%s", ti, gotDiv[ti], wantDiv[ti], ctx())
		}
		if !eqStat(gotEpochs[ti], wantEpochs[ti]) {
			c.Fail("aggregate:EpochsPerTrial", "EpochsPerTrial()[%d] = %v, %v generations are recorded\n%s", ti, gotEpochs[ti], wantEpochs[ti], ctx())
		}
		// age and complexity of the best organism: any champion of maximal fitness is acceptable
		okAge, okCx := len(bestCands[ti]) == 0 && gotBestAge[ti] == 0, len(bestCands[ti]) == 0 && gotBestCx[ti] == 0
		for _, ch := range bestCands[ti] {
			age := 0.0
			if ch.Species != nil {
				age = float64(ch.Species.Age)
			}
			if gotBestAge[ti] == age {
				okAge = true
			}
			var cxv float64
			c.Lib("Organism.Phenotype", func() {
				if ph, err := ch.Phenotype(); err == nil {
					cxv = float64(ph.NodeCount() + ph.LinkCount())
				} else {
					cxv = float64(math.MaxInt)
				}
			})
			if gotBestCx[ti] == cxv {
				okCx = true
			}
		}
		if !okAge {
			c.Fail("aggregate:BestSpeciesAge", "BestSpeciesAge()[%d] = %v is not the species age of a best champion of the trial\n%s", ti, gotBestAge[ti], ctx())
		}
		if !okCx {
			c.Fail("aggregate:BestComplexity", "BestComplexity()[%d] = %v is not nodes+links of a best champion's phenotype\n%s", ti, gotBestCx[ti], ctx())
		}
	}
}

// RecordSurgery edits an experiment record in place the way a user of the public types can (generations kept
// most-recent-first or shuffled, an extra unsolved generation after the last one, another generation marked solved, a
// truncated trial) and returns a description. The time stamps travel with the generations, so they no longer increase
// along the slice.
func RecordSurgery(t *Tape, exp *experiment.Experiment) string {
	surgery := ""
	for k := t.Range("surgery.ops", 1, 3); k > 0; k-- {
		ti := t.Draw("surgery.trial", len(exp.Trials))
		tr := &exp.Trials[ti]
		n := len(tr.Generations)
		if n == 0 {
			continue
		}
		switch t.Draw("surgery.kind", 6) {
		case 0: // most recent first
			for i, j := 0, n-1; i < j; i, j = i+1, j-1 {
				tr.Generations[i], tr.Generations[j] = tr.Generations[j], tr.Generations[i]
			}
			surgery += fmt.Sprintf(" reverse(trial %d)", ti)
		case 1: // shuffled
			rng := t.Sub("surgery.shuffle")
			for i := n - 1; i > 0; i-- {
				j := rng.Intn(i + 1)
				tr.Generations[i], tr.Generations[j] = tr.Generations[j], tr.Generations[i]
			}
			surgery += fmt.Sprintf(" shuffle(trial %d)", ti)
		case 2: // one more, unsolved, generation recorded after the last one
			g := tr.Generations[t.Draw("surgery.src", n)]
			g.Solved, g.WinnerNodes, g.WinnerGenes, g.WinnerEvals = false, 0, 0, 0
			g.Id = n
			tr.Generations = append(tr.Generations, g)
			surgery += fmt.Sprintf(" append-unsolved(trial %d)", ti)
		case 3: // another generation marked solved
			gi := t.Draw("surgery.gen", n)
			g := &tr.Generations[gi]
			if g.Champion != nil {
				g.Solved = true
				g.WinnerNodes, g.WinnerGenes, g.WinnerEvals = 3+t.Draw("surgery.wn", 9), 2+t.Draw("surgery.wg", 9), 10+t.Draw("surgery.we", 500)
				if t.Chance("surgery.winnerUnfilled", 1, 3) {
					// an evaluator that reports success without filling in the winner's size
					g.WinnerNodes, g.WinnerGenes, g.WinnerEvals = 0, 0, 0
				}
				surgery += fmt.Sprintf(" mark-solved(trial %d generation #%d)", ti, gi)
			}
		case 4: // truncated
			tr.Generations = tr.Generations[:t.Draw("surgery.cut", n)]
			surgery += fmt.Sprintf(" truncate(trial %d)", ti)
		case 5: // a generation record without a time stamp, or stamped by a clock centuries away from today's
			gi := t.Draw("surgery.gen", n)
			g := &tr.Generations[gi]
			switch t.Draw("surgery.stamp", 3) {
			case 0:
				g.Executed = time.Time{}
			case 1:
				g.Executed = time.Date(2400+t.Draw("surgery.year", 600), 2, 29, 12, 0, 0, 5, time.UTC)
			case 2:
				g.Executed = time.Date(1500+t.Draw("surgery.year", 150), 7, 1, 0, 0, 0, 0, time.UTC)
			}
			surgery += fmt.Sprintf(" stamp(trial %d generation #%d := %s)", ti, gi, g.Executed.Format(time.RFC3339Nano))
		}
	}
	return surgery
}

// checkTimeAggregates recomputes the clock-derived aggregates from the recorded generations and trials: the average
// generation duration of a trial and of the experiment, the average trial duration, the most recent evaluation instant
// of a trial and of the experiment. The durations and instants themselves come from the run's clock (the simulated one
// in bubble runs: drawn evaluator sleeps, jumps between generations) or from record surgery; the aggregates are exact
// integer functions of them (a mean of durations is the sum divided by the count, truncated as time.Duration division
// does). A mean over nothing is the documented EmptyDuration; the experiment's mean of per-trial means is judged only
// when every trial has a generation (a trial without one has no mean to contribute, and the statement does not say
// what it counts as).
func checkTimeAggregates(c *RunCtx, exp *experiment.Experiment, ctx func() string) {
	meanDur := func(ds []time.Duration) (time.Duration, bool) {
		if len(ds) == 0 {
			return experiment.EmptyDuration, true
		}
		sum := new(big.Int)
		for _, d := range ds {
			sum.Add(sum, big.NewInt(int64(d)))
		}
		if !sum.IsInt64() {
			return 0, false // the library's own int64 sum overflows: not judged
		}
		return time.Duration(sum.Int64() / int64(len(ds))), true
	}
	var trialMeans, trialDurs []time.Duration
	allTrialsHaveGenerations := true
	var newest time.Time
	for ti := range exp.Trials {
		tr := &exp.Trials[ti]
		var ds []time.Duration
		var recent time.Time
		for gi := range tr.Generations {
			g := &tr.Generations[gi]
			ds = append(ds, g.Duration)
			if g.Executed.After(recent) {
				recent = g.Executed
			}
		}
		if recent.After(newest) {
			newest = recent
		}
		trialDurs = append(trialDurs, tr.Duration)
		var got time.Duration
		var gotRecent time.Time
		c.Lib("Trial.AvgEpochDuration / RecentEpochEvalTime", func() { got = tr.AvgEpochDuration(); gotRecent = tr.RecentEpochEvalTime() })
		want, ok := meanDur(ds)
		if !ok {
			c.Count("skipped.duration-sum-overflow")
			allTrialsHaveGenerations = false
		} else {
			if got != want {
				c.Fail("aggregate:Trial.AvgEpochDuration", "trial %d: AvgEpochDuration() = %v, the %d recorded generation durations %v average %v\n%s", ti, got, len(ds), ds, want, ctx())
			}
			trialMeans = append(trialMeans, want)
		}
		if len(ds) == 0 {
			allTrialsHaveGenerations = false
			c.Count("probe.time.trial_without_generations")
		}
		if !gotRecent.Equal(recent) {
			c.Fail("aggregate:Trial.RecentEpochEvalTime", "trial %d: RecentEpochEvalTime() = %v, the latest recorded evaluation instant is %v\n%s", ti, gotRecent, recent, ctx())
		}
		if len(ds) > 1 {
			c.Count("probe.time.trial_mean_over_several_generations")
		}
	}
	var gotTrial, gotEpoch time.Duration
	var gotNewest time.Time
	c.Lib("Experiment.AvgTrialDuration / AvgEpochDuration / MostRecentTrialEvalTime", func() {
		gotTrial = exp.AvgTrialDuration()
		gotEpoch = exp.AvgEpochDuration()
		gotNewest = exp.MostRecentTrialEvalTime()
	})
	if want, ok := meanDur(trialDurs); ok && gotTrial != want {
		c.Fail("aggregate:AvgTrialDuration", "AvgTrialDuration() = %v, the %d recorded trial durations %v average %v\n%s", gotTrial, len(trialDurs), trialDurs, want, ctx())
	}
	if allTrialsHaveGenerations || len(exp.Trials) == 0 {
		if want, ok := meanDur(trialMeans); ok && gotEpoch != want {
			c.Fail("aggregate:AvgEpochDuration", "AvgEpochDuration() = %v, the per-trial average generation durations %v average %v\n%s", gotEpoch, trialMeans, want, ctx())
		}
	}
	if !gotNewest.Equal(newest) {
		c.Fail("aggregate:MostRecentTrialEvalTime", "MostRecentTrialEvalTime() = %v, the latest recorded evaluation instant of any trial is %v\n%s", gotNewest, newest, ctx())
	}
	if !newest.IsZero() {
		c.Count("probe.time.instants_recorded")
	}
}

// checkNearMaxSeries judges the accessors whose textbook value is representable for a series of finite values next to the
// largest float64.
func checkNearMaxSeries(c *RunCtx, x experiment.Floats) {
	const what = "a synthetic series of values next to the largest float64"
	const prec = 256
	bsum := new(big.Float).SetPrec(prec)
	lo, hi := x[0], x[0]
	for _, v := range x {
		bsum.Add(bsum, new(big.Float).SetPrec(prec).SetFloat64(v))
		lo, hi = math.Min(lo, v), math.Max(hi, v)
	}
	wantMean, _ := new(big.Float).SetPrec(prec).Quo(bsum, new(big.Float).SetPrec(prec).SetInt64(int64(len(x)))).Float64()
	var gotMin, gotMax, gotMean, gotMed float64
	var mv []float64
	c.Lib("Floats accessors", func() {
		gotMin, gotMax, gotMean, gotMed = x.Min(), x.Max(), x.Mean(), x.Median()
		mv = x.MeanVariance()
	})
	if gotMin != lo {
		c.Fail("series:Min", "Min of %s = %v, the definition gives %v; series %v", what, gotMin, lo, []float64(x))
	}
	if gotMax != hi {
		c.Fail("series:Max", "Max of %s = %v, the definition gives %v; series %v", what, gotMax, hi, []float64(x))
	}
	s := append([]float64(nil), x...)
	sort.Float64s(s)
	if k := int(math.Ceil(float64(len(x))*0.5 - 1e-12)); gotMed != s[k-1] {
		c.Fail("series:Median", "Median of %s = %v, the empirical quantile gives %v; series %v", what, gotMed, s[k-1], []float64(x))
	}
	if !eqStat(gotMean, wantMean) {
		c.FailSoft("series:Mean", "Mean of %s = %v, the definition gives %v (the mean of finite values is finite); series %v", what, gotMean, wantMean, []float64(x))
	}
	if len(mv) == 2 && !eqStat(mv[0], wantMean) {
		c.FailSoft("series:Mean", "MeanVariance[0] of %s = %v, the definition gives %v; series %v", what, mv[0], wantMean, []float64(x))
	}
}
