package sim

import (
	"fmt"
	"math"

	"github.com/yaricom/goNEAT/v4/neat/genetics"
)

// C09 — offspring quotas follow shared fitness and total the population size.
// C10 — the champion of every sizeable species survives the epoch unchanged.

func init() {
	Register(&Scenario{
		Prop: "C09", Run: scenarioC09, QuickRuns: 4800, ThoroughRuns: 120000, Level: "exploration",
		Rule:       "one run = a seeded world with a positive fitness landscape turned over for 1..N epochs; every epoch is observed before the turnover (raw fitness, membership, ages), at the 'epoch.prepared' observation point (adjusted fitness, expected offspring, quotas after stealing / delta coding, parents left after culling) and at the first speciation (number of babies); the apportionment oracle recomputes expectations, the carried-floor prefix sums, the total and the parent cut-off. A case is one epoch; non-trivial when it had >= 2 species; distinct by (species count, quota vector hash, rare-path flags)",
		RealParts:  []string{"Species.adjustFitness / countOffspring, Population.purgeZeroOffspringSpecies / giveBabiesToTheBest / deltaCoding / purgeOrganisms, both epoch executors"},
		StubParts:  []string{"fitness assignment (seeded landscape with at least one positive value)", "goroutine choice in parallel worlds"},
		Assumes:    []string{"the age adjustment is constrained to be one uniform positive factor per species, decided by the species history at the start of the epoch: 1 or the age-significance option when the last improvement is more than two generations short of the drop-off age, below half of that when it is two or more generations past it; penalty constants and the exact boundary are not mirrored", "1e-9 relative tolerance; where a cumulative expectation lies within 1e-6 of an integer either rounding is accepted"},
		ProbeNames: []string{"probe.multi_species_epoch", "probe.options_changed_between_epochs", "probe.makeup_offspring", "probe.delta_coding", "probe.stolen_babies", "probe.zero_quota_species", "probe.stagnant_species_penalised", "probe.long_stagnant_species", "probe.species_scoring_zero", "probe.young_species_boost", "probe.culling_removed_parents", "probe.survival_product_whole", "probe.species_age_surgery", "probe.young_and_stagnant_species", "probe.young_stagnant_vs_old_stagnant"},
	})
	Register(&Scenario{
		Prop: "C10", Run: scenarioC10, QuickRuns: 4800, ThoroughRuns: 120000, Level: "exploration",
		Rule:       "one run = a seeded world with distinct positive fitness values turned over for 1..N epochs (long enough for champions to carry disabled, recurrent and re-enabled genes; with and without stolen babies and delta coding); for every species whose final quota exceeds five the next generation must contain a genome whose canonical dump (without the id) equals the pre-epoch dump of the species' fittest organism. A case is one (epoch, species with quota > 5); non-trivial when the champion carries a hidden node, a disabled or a recurrent gene; distinct by champion shape hash",
		RealParts:  []string{"Species.reproduce champion-clone and super-champion branches, Genome.duplicate, both epoch executors (the parallel one encodes and decodes every baby)"},
		StubParts:  []string{"fitness assignment", "goroutine choice in parallel worlds"},
		Assumes:    []string{"species in which the maximal fitness is not unique are skipped (the statement asks for distinct values)"},
		ProbeNames: []string{"probe.champion_checked", "probe.champion_with_disabled_gene", "probe.champion_with_recurrent_gene", "probe.champion_with_hidden_node", "probe.super_champion_species", "probe.delta_coding", "probe.parallel_epoch"},
	})
}

func deltaCodingFired(snap *EpochSnap) bool {
	p := snap.Prepared
	return p != nil && p.SinceHighest == 0 && p.Highest == snap.Highest
}

func checkQuotas(c *RunCtx, w *World, snap *EpochSnap) {
	P := snap.Prepared
	if P == nil {
		return
	}
	where := fmt.Sprintf("world [start=%s] generation %d", w.KindName, snap.Gen)
	popSize := w.Opts.PopSize
	// (1) expected offspring = adjusted fitness / population mean of adjusted fitness
	total := 0.0
	for _, os := range snap.Orgs {
		total += P.Adj[os.Org]
	}
	mean := total / float64(len(snap.Orgs))
	if !(mean > 0) || math.IsInf(mean, 0) {
		c.Skip("precondition:no-positive-mean")
	}
	for i, os := range snap.Orgs {
		want := P.Adj[os.Org] / mean
		if got := P.Exp[os.Org]; !closeRel(got, want) {
			c.Fail("expected-offspring", "%s: organism %d has expected offspring %.12g; adjusted fitness %.12g over the population mean %.12g is %.12g", where, i, got, P.Adj[os.Org], mean, want)
		}
	}
	// (2) species-shared, age-adjusted fitness: one uniform factor per species, divided by the species size
	A := w.Opts.AgeSignificance
	for _, ss := range snap.Species {
		n := float64(len(ss.Members))
		factor := math.NaN()
		for _, o := range ss.Members {
			raw := rawOf(snap, o)
			adj := P.Adj[o]
			if raw == 0 {
				if adj != 0 {
					c.Fail("shared-fitness", "%s: species %d: an organism with raw fitness 0 has adjusted fitness %.12g", where, ss.Id, adj)
				}
				continue
			}
			f := adj * n / raw
			if math.IsNaN(factor) {
				factor = f
			} else if !closeRel(f, factor) {
				c.Fail("shared-fitness", "%s: species %d (size %d): adjusted*size/raw is %.12g for one member and %.12g for another; fitness sharing and the age adjustment must scale all members alike", where, ss.Id, len(ss.Members), factor, f)
			}
		}
		if math.IsNaN(factor) {
			c.Count("probe.species_scoring_zero")
			continue
		}
		if ss.Age+1 < w.Opts.DropOffAge {
			// cannot be stagnant under any reading of the drop-off age
			if !closeRel(factor, 1) && !closeRel(factor, A) {
				c.Fail("shared-fitness", "%s: species %d (age %d, size %d, drop-off age %d) cannot be stagnant, yet adjusted fitness = raw * %.12g / size; expected factor 1 or the age significance %.6g", where, ss.Id, ss.Age, len(ss.Members), w.Opts.DropOffAge, factor, A)
			}
			if A != 1 && closeRel(factor, A) {
				c.Count("probe.young_species_boost")
			}
		} else {
			if !(factor > 0) || factor > math.Max(1, A)*(1+1e-9) {
				c.Fail("shared-fitness", "%s: species %d: age adjustment factor %.12g is outside (0, max(1, age significance)]", where, ss.Id, factor)
			}
			if factor < 0.5 {
				c.Count("probe.stagnant_species_penalised")
			}
			// The age adjustment is a function of the species' history as it stood when the epoch began, not of the
			// fitness values being adjusted. A margin of two generations on either side of the drop-off age leaves
			// room for every reading of "has not improved for drop-off-age generations".
			since := ss.Age - ss.AgeOfLastImprovement
			if since >= w.Opts.DropOffAge+2 {
				c.Count("probe.long_stagnant_species")
				if factor >= 0.5*math.Max(1, A) {
					c.Fail("stagnation-penalty", "%s: species %d (age %d) had not improved for %d generations when the epoch began, the drop-off age is %d, yet its fitness was not penalised (adjusted = raw * %.12g / size)", where, ss.Id, ss.Age, since, w.Opts.DropOffAge, factor)
				}
			} else if since+2 < w.Opts.DropOffAge {
				if !closeRel(factor, 1) && !closeRel(factor, A) {
					c.Fail("stagnation-penalty", "%s: species %d (age %d) improved %d generations ago, the drop-off age is %d, yet adjusted fitness = raw * %.12g / size; expected factor 1 or the age significance %.6g", where, ss.Id, ss.Age, since, w.Opts.DropOffAge, factor, A)
				}
			}
		}
	}
	// (2b) the two age adjustments are independent of each other: a species that is young (at most as old as a species
	// seen boosted in this very epoch) and stagnant is boosted and penalised, so its factor is the age significance times
	// the factor of a stagnant species that is old (at least as old as a non-stagnant species seen unboosted in this
	// epoch). The witnesses come from the epoch itself: neither the young-age limit nor the penalty is mirrored.
	if A != 1 {
		type sf struct {
			id, age int
			f       float64
		}
		youngMax, oldMin := -1, math.MaxInt
		var stagn []sf
		for _, ss := range snap.Species {
			n := float64(len(ss.Members))
			f := math.NaN()
			for _, o := range ss.Members {
				if raw := rawOf(snap, o); raw != 0 {
					f = P.Adj[o] * n / raw
					break
				}
			}
			if math.IsNaN(f) {
				continue
			}
			since := ss.Age - ss.AgeOfLastImprovement
			switch {
			case since+2 < w.Opts.DropOffAge:
				if closeRel(f, A) && ss.Age > youngMax {
					youngMax = ss.Age
				}
				if closeRel(f, 1) && ss.Age < oldMin {
					oldMin = ss.Age
				}
			case since >= w.Opts.DropOffAge+2:
				stagn = append(stagn, sf{ss.Id, ss.Age, f})
			}
		}
		if youngMax < oldMin {
			for _, y := range stagn {
				if y.age > youngMax {
					continue
				}
				c.Count("probe.young_and_stagnant_species")
				for _, o := range stagn {
					if o.age < oldMin {
						continue
					}
					c.Count("probe.young_stagnant_vs_old_stagnant")
					if !closeRel(y.f, A*o.f) {
						c.Fail("age-adjustments-independent", "%s: species %d (age %d) is young - a species of age %d got the age-significance boost %.6g in this epoch - and stagnant; species %d (age %d) is stagnant and not young - a species of age %d got no boost. Their adjustment factors are %.12g and %.12g; boost and stagnation penalty both apply to the former, so the ratio must be the age significance", where, y.id, y.age, youngMax, A, o.id, o.age, oldMin, y.f, o.f)
					}
				}
			}
		}
	}
	// (3) quotas
	delta := deltaCodingFired(snap)
	stolen := !delta && w.Opts.BabiesStolen > 0
	sumQ := 0
	for _, ss := range snap.Species {
		sumQ += P.Quota[ss.Sp]
	}
	if sumQ != popSize {
		c.Fail("quota-total", "%s: species quotas total %d, the population size is %d (delta coding %t, babies stolen %d)", where, sumQ, popSize, delta, w.Opts.BabiesStolen)
	}
	if delta {
		c.Count("probe.delta_coding")
	}
	if stolen {
		c.Count("probe.stolen_babies")
	}
	if !delta && !stolen {
		cum := 0.0
		pre := 0
		bigDiffs := 0
		for si, ss := range snap.Species {
			sum := 0.0
			for _, o := range ss.Members {
				sum += P.Exp[o]
			}
			cum += sum
			q := P.Quota[ss.Sp]
			pre += q
			lo := int(math.Floor(cum - 1e-6))
			hi := int(math.Floor(cum+1e-6)) + 1
			if pre < lo || pre > hi {
				c.Fail("quota-carry", "%s: after species %d (#%d in order) the quotas total %d, but the members' expected offspring total %.9g: floors with carried fractions must give %d (or one more for the make-up offspring)", where, ss.Id, si, pre, cum, int(math.Floor(cum+1e-6)))
			}
			d := math.Abs(float64(q) - sum)
			if d >= 2+1e-6 {
				c.Fail("quota-vs-sum", "%s: species %d has quota %d but its members expect %.9g offspring", where, ss.Id, q, sum)
			}
			if d >= 1+1e-6 {
				bigDiffs++
			}
		}
		if bigDiffs > 1 {
			c.Fail("quota-vs-sum", "%s: %d species have quotas that differ from their members' expected offspring by one or more; only one make-up offspring exists", where, bigDiffs)
		}
		if bigDiffs == 1 {
			c.Count("probe.makeup_offspring")
		}
	}
	// (4) parents left: the top floor(survival_thresh*n)+1 by fitness
	for _, ss := range snap.Species {
		n := len(ss.Members)
		x := w.Opts.SurvivalThresh * float64(n)
		want := int(math.Floor(x)) + 1
		alt := want
		// the product is formed in float64: when it lands a hair below a whole number k the mathematical value may be k
		// itself, and then k+1 parents are right as well. The other direction does not exist: a product that is a whole
		// number k, or a hair above it, has floor k in either reading.
		if fr := x - math.Floor(x); fr > 1-1e-9 {
			alt = want + 1
		}
		if x == math.Floor(x) && x >= 1 && int(x) < n {
			c.Count("probe.survival_product_whole")
		}
		if want > n {
			want = n
		}
		if alt > n {
			alt = n
		}
		kept := P.Parents[ss.Sp]
		if len(kept) != want && len(kept) != alt {
			c.Fail("parent-count", "%s: species %d had %d organisms, survival threshold %.9g: %d remain as parents, expected min(n, floor(thresh*n)+1) = %d", where, ss.Id, n, w.Opts.SurvivalThresh, len(kept), want)
		}
		isMember := map[*genetics.Organism]bool{}
		for _, o := range ss.Members {
			isMember[o] = true
		}
		keptSet := map[*genetics.Organism]bool{}
		minKept := math.Inf(1)
		for _, o := range kept {
			if !isMember[o] {
				c.Fail("parent-foreign", "%s: species %d lists a parent that was not its member", where, ss.Id)
			}
			keptSet[o] = true
			if r := rawOf(snap, o); r < minKept {
				minKept = r
			}
		}
		for _, o := range ss.Members {
			if !keptSet[o] {
				if r := rawOf(snap, o); r > minKept {
					c.Fail("parent-not-top", "%s: species %d removed an organism of fitness %.12g but kept one of fitness %.12g as parent", where, ss.Id, r, minKept)
				}
			}
		}
		if len(kept) < n {
			c.Count("probe.culling_removed_parents")
		}
	}
	// (5) zero-quota species do not reproduce
	left := map[*genetics.Species]bool{}
	for _, sp := range P.SpeciesLeft {
		left[sp] = true
	}
	zero := false
	for _, ss := range snap.Species {
		q := P.Quota[ss.Sp]
		if !left[ss.Sp] {
			zero = true
			if q != 0 {
				c.Fail("zero-quota", "%s: species %d was removed before reproduction although its quota is %d", where, ss.Id, q)
			}
		} else if q == 0 && !delta {
			c.Fail("zero-quota", "%s: species %d has quota 0 but is still listed for reproduction", where, ss.Id)
		}
	}
	if zero {
		c.Count("probe.zero_quota_species")
	}
	if snap.Err == nil && len(snap.Speciations) > 0 {
		if nb := len(snap.Speciations[len(snap.Speciations)-1].Batch); nb != popSize {
			c.Fail("baby-count", "%s: reproduction delivered %d babies, quotas total %d", where, nb, popSize)
		}
	}
	// accounting
	qh := uint64(len(snap.Species))
	for _, ss := range snap.Species {
		qh = Mix(qh, uint64(P.Quota[ss.Sp]), uint64(len(ss.Members)))
	}
	h := Mix(qh, b2u(delta), b2u(stolen))
	c.State(h)
	if len(snap.Species) >= 2 {
		c.Count("probe.multi_species_epoch")
		c.Nontrivial(h)
	}
}

func rawOf(snap *EpochSnap, o *genetics.Organism) float64 {
	for i := range snap.Orgs {
		if snap.Orgs[i].Org == o {
			return snap.Orgs[i].Raw
		}
	}
	return math.NaN()
}

func scenarioC09(c *RunCtx) {
	t := c.T
	maxPop, maxEpochs := 40, 14
	if c.Thorough {
		maxPop, maxEpochs = 80, 50
	}
	spec := WorldSpec{
		Prof:         OptProfile{MinPop: 3, MaxPop: maxPop, Parallel: 2, Structural: t.Pick("structural", 1, 1), ManySpecies: t.Chance("manySpecies", 2, 3), AllowStolen: true, SmallDropOff: t.Chance("smallDropOff", 2, 3)},
		Genome:       GenomeSpec{AllowDisabled: true, MaxHidden: 2},
		AllowShipped: true,
		Landscapes:   append([]int{LandSpeciesZero, LandSpeciesZero}, PositiveLands...),
	}
	// one run in sixteen: positive fitness that is a small whole multiple of the smallest float64. Every quotient of
	// such values is rounded to whole units, so only the clause that needs no arithmetic of the oracle's own is judged
	// there: the quotas total the population size (known finding F22 lives here).
	subnormal := t.Chance("subnormalFitness", 1, 16)
	if subnormal {
		spec.Landscapes = []int{LandSubnormalUnits}
	}
	var w *World
	c.LibSoft("construct", func() { w = NewWorld(t, spec) })
	if w.ConstructErr != nil {
		c.Skip("constructor-error")
	}
	if w.IsParallel() {
		sched := NewSched(t)
		genetics.Verif = sched.Hooks()
		defer func() { genetics.Verif = nil }()
	}
	c.Sample = w.Describe()
	c.Op("world: %s", w.Describe())
	epochs := t.Range("epochs", 1, maxEpochs)
	ageSurgery := t.Chance("ageSurgery", 1, 3)
	for e := 0; e < epochs; e++ {
		if e > 0 && t.Chance("reconfigure", 1, 6) {
			// the caller hands the next epoch a new Options object (same executor, same population)
			what := w.Reconfigure()
			c.Count("probe.options_changed_between_epochs")
			c.Op("options changed before epoch %d: %s", e, what)
		}
		if ageSurgery && len(w.Pop.Species) >= 3 && t.Chance("ageSurgery.now", 1, 2) {
			// "all species ages": the caller hands the epoch a population whose species have other histories (a population
			// assembled from saved species, a migration between islands): ages and last-improvement ages are public fields
			c.Count("probe.species_age_surgery")
			desc := ""
			for _, sp := range w.Pop.Species {
				sp.Age = []int{1, 2, 4, 7, 9, 12, 16, 25, 40}[t.Draw("ageSurgery.age", 9)]
				switch t.Pick("ageSurgery.improved", 2, 1, 2) {
				case 0:
					sp.AgeOfLastImprovement = sp.Age // improved just now
				case 1:
					sp.AgeOfLastImprovement = sp.Age - t.Draw("ageSurgery.since", sp.Age+1)
				case 2:
					sp.AgeOfLastImprovement = 0 // never since it was founded
				}
				desc += fmt.Sprintf(" #%d:age=%d,improved@%d", sp.Id, sp.Age, sp.AgeOfLastImprovement)
			}
			c.Op("species ages set before epoch %d:%s", e, desc)
		}
		snap := StepEpoch(c, w, false, nil, c.LibSoft)
		c.Steps++
		c.Op("epoch %d: %d species, err=%v", e, len(snap.Species), snap.Err)
		if subnormal {
			c.Count("probe.fitness_subnormal_units")
			if P := snap.Prepared; P != nil && !deltaCodingFired(snap) {
				sumQ := 0
				for _, ss := range snap.Species {
					sumQ += P.Quota[ss.Sp]
				}
				if sumQ != w.Opts.PopSize {
					c.FailSoft("quota-total", "world [start=%s fitness=%s] generation %d: species quotas total %d, the population size is %d (babies stolen %d)", w.KindName, w.Land.Name(), snap.Gen, sumQ, w.Opts.PopSize, w.Opts.BabiesStolen)
				}
			}
		} else {
			checkQuotas(c, w, snap)
		}
		if snap.Err != nil {
			c.Counters["abandoned.epoch-error"]++
			return
		}
	}
}

func scenarioC10(c *RunCtx) {
	t := c.T
	maxPop, maxEpochs := 40, 14
	if c.Thorough {
		maxPop, maxEpochs = 80, 50
	}
	spec := WorldSpec{
		Prof:         OptProfile{MinPop: 8, MaxPop: maxPop, Parallel: 2, Structural: 1, ManySpecies: t.Chance("manySpecies", 1, 3), AllowStolen: true, SmallDropOff: t.Chance("smallDropOff", 1, 2), ActivationSwarm: true},
		Genome:       GenomeSpec{AllowDisabled: true, MaxHidden: 3},
		AllowShipped: true,
		Landscapes:   []int{LandDistinct, LandStructural, LandUniform, LandHeavy, LandOscillate, LandNearlyEqual},
	}
	var w *World
	c.LibSoft("construct", func() { w = NewWorld(t, spec) })
	if w.ConstructErr != nil {
		c.Skip("constructor-error")
	}
	if w.Opts.MutateToggleEnableProb < 0.15 {
		w.Opts.MutateToggleEnableProb = 0.15 + 0.4*t.Float("toggleBoost")
	}
	if w.IsParallel() {
		sched := NewSched(t)
		genetics.Verif = sched.Hooks()
		defer func() { genetics.Verif = nil }()
	}
	c.Sample = w.Describe()
	c.Op("world: %s", w.Describe())
	epochs := t.Range("epochs", 1, maxEpochs)
	for e := 0; e < epochs; e++ {
		snap := StepEpoch(c, w, true, nil, c.LibSoft)
		c.Steps++
		c.Op("epoch %d: %d species, err=%v", e, len(snap.Species), snap.Err)
		if snap.Err != nil {
			c.Counters["abandoned.epoch-error"]++
			return
		}
		if snap.Prepared == nil {
			continue
		}
		if w.IsParallel() {
			c.Count("probe.parallel_epoch")
		}
		if deltaCodingFired(snap) {
			c.Count("probe.delta_coding")
		}
		next := map[string]bool{}
		for _, o := range w.Pop.Organisms {
			next[Canon(o.Genotype).Dump(false)] = true
		}
		for _, ss := range snap.Species {
			q := snap.Prepared.Quota[ss.Sp]
			if q <= 5 {
				continue
			}
			// the fittest organism, provided it is unique
			var champ *OrgSnap
			ties := 0
			for i := range snap.Orgs {
				os := &snap.Orgs[i]
				if os.Species != ss.Sp {
					continue
				}
				if champ == nil || os.Raw > champ.Raw {
					champ, ties = os, 0
				} else if os.Raw == champ.Raw {
					ties++
				}
			}
			if champ == nil || ties > 0 || !(champ.Raw > 0) {
				c.Count("skipped.champion-not-unique")
				continue
			}
			c.Count("probe.champion_checked")
			if genetics.VerifOrganismView(champ.Org).SuperChampOffspring >= 0 && w.Opts.BabiesStolen > 0 {
				c.Count("probe.super_champion_species")
			}
			hid, dis, rec := false, false, false
			for _, n := range champ.Rec.Nodes {
				if n.Neuron == 0 {
					hid = true
				}
			}
			for _, g := range champ.Rec.Genes {
				if !g.En {
					dis = true
				}
				if g.Rec {
					rec = true
				}
			}
			if dis {
				c.Count("probe.champion_with_disabled_gene")
			}
			if rec {
				c.Count("probe.champion_with_recurrent_gene")
			}
			if hid {
				c.Count("probe.champion_with_hidden_node")
			}
			h := champ.Rec.ShapeHash()
			c.State(h)
			if hid || dis || rec {
				c.Nontrivial(h)
			}
			if !next[champ.Rec.Dump(false)] {
				c.Fail("champion-lost", "world [start=%s] generation %d: species %d has quota %d (> 5) but the next generation holds no unmodified copy of its fittest organism (fitness %.9g): %s", w.KindName, e, ss.Id, q, champ.Raw, champ.Rec.Pretty())
			}
		}
	}
}
