package sim

import (
	"context"
	"errors"
	"fmt"
	"os"

	"github.com/yaricom/goNEAT/v4/neat"
	"github.com/yaricom/goNEAT/v4/neat/genetics"
)

// C20 — an experiment run follows its trial/generation protocol exactly.

func init() {
	Register(&Scenario{
		Prop: "C20", Run: scenarioC20, CLI: true, QuickRuns: 12000, ThoroughRuns: 1500000, Level: "fault_enumeration",
		Rule:       "one run = one seeded experiment shape (1..N trials, 1..M generations, which generation if any is reported solved per trial, with or without observer, sequential or parallel executor) executed by the real Experiment.Execute with a scripted evaluator and observer that write one sequence-numbered event log, under a fault script: none, an evaluator error, or a context cancellation at evaluator entry / by a timer at a simulated instant in mid-evaluation (fake clock) / evaluator exit / inside each of the three observer callbacks / at the 'epoch.prepared' point / at the k-th offspring / at the speciation of the babies. The log must be a prefix of the protocol's ideal sequence, complete when no fault fired; no evaluation may begin after the fault instant; the returned error must be the injected one / context.Canceled (nil only if the protocol had completed); generation g>=1 is evaluated on organisms born in turnover g-1, a solved trial's population is never turned over, every trial starts from a freshly spawned population, finished trials are recorded in order. A share of the runs sweeps every single-fault point of its shape (complete for that shape). One run in forty drives the shipped command-line runner (package main built from the working tree, child process, XOR experiment, drawn small configuration, with or without the -trials option) and judges the experiment record it saves: the requested number of trials in order, generations 0,1,2,... up to the maximum, nothing after a solved one. Evaluator errors come plain or wrapping context.Canceled / DeadlineExceeded of a context of the evaluator's own. A case is one Execute call; non-trivial when a fault fired or a trial was solved before its last generation; distinct by (shape, solved pattern, fault)",
		RealParts:  []string{"experiment.Experiment.Execute, epochExecutorForContext, both epoch executors, NewPopulation, context propagation into Species.reproduce and Population.speciate", "time.Now / time.Since under the testing/synctest fake clock (sequential executor)"},
		StubParts:  []string{"GenerationEvaluator and TrialRunObserver (scripted, logging)", "wall clock (fake clock for the sequential executor; real, unobserved clock for the parallel one)", "goroutine choice in parallel runs"},
		FaultKinds: []string{"fault.eval-error", "fault.cancel@eval-entry", "fault.cancel@eval-mid(timer)", "fault.cancel@eval-exit", "fault.cancel@TrialRunStarted", "fault.cancel@EpochEvaluated", "fault.cancel@TrialRunFinished", "fault.cancel@epoch.prepared", "fault.cancel@offspring-k", "fault.cancel@speciate.begin", "fault.deadline-expired@eval-mid", "fault.eval-error-after-solved"},
		Assumes:    []string{"after a cancellation the observer may still learn that the next trial started (the run notices the cancellation at the next generation check); that is a prefix of the ideal sequence and accepted"},
		ProbeNames: []string{"probe.solved_early", "probe.solved_last_generation", "probe.unsolved_trial", "probe.no_observer", "probe.parallel", "probe.fault_free_run", "probe.nil_after_cancel_protocol_complete", "probe.single_fault_sweep", "probe.multi_fault", "probe.preallocated_trials", "probe.reused_experiment_object", "probe.zero_generations", "probe.deadline_context", "probe.command_line_runner", "probe.cli_trials_option_overrides"},
	})
}

// checkProtocol is the C20 oracle for one executed experiment.
func checkProtocol(c *RunCtx, s *ExpSim) {
	ideal := s.IdealLog()
	render := func(evs []Event, n int) string {
		str := ""
		for i, e := range evs {
			if i >= n {
				str += " ..."
				break
			}
			str += " " + e.String()
		}
		return str
	}
	ctx := func() string {
		return fmt.Sprintf("experiment: %s\nevents:%s\nideal: %s\nreturned error: %v, first fault fired before event #%d", s.Describe(), render(s.Log, 60), render(ideal, 60), s.Err, s.FaultSeq)
	}
	// 1. the log is a prefix of the ideal sequence
	for i, e := range s.Log {
		if i >= len(ideal) {
			c.Fail("extra-event", "event #%d %s comes after the protocol was complete\n%s", i, e, ctx())
		}
		w := ideal[i]
		if e.Kind != w.Kind || e.Trial != w.Trial || e.Gen != w.Gen {
			inv := "wrong-event"
			if i > 0 && s.Log[i-1].Kind == e.Kind && s.Log[i-1].Trial == e.Trial && s.Log[i-1].Gen == e.Gen {
				inv = "duplicate-event"
			}
			c.Fail(inv, "event #%d is %s, the protocol requires %s\n%s", i, e, w, ctx())
		}
	}
	complete := len(s.Log) == len(ideal)
	// 2. error and completeness
	switch {
	case s.FaultSeq < 0:
		if s.Err != nil {
			c.Fail("unexpected-error", "no fault was injected but Execute returned %v\n%s", s.Err, ctx())
		}
		if !complete {
			c.Fail("incomplete", "no fault was injected but only %d of %d protocol events happened\n%s", len(s.Log), len(ideal), ctx())
		}
	case s.EvalErrSeq >= 0:
		if !errors.Is(s.Err, ErrInjectedEval) {
			c.Fail("error-not-returned", "the evaluator failed but Execute returned %v\n%s", s.Err, ctx())
		}
		if len(s.Log) != s.EvalErrSeq {
			c.Fail("event-after-stop", "%d events were logged after the evaluator error\n%s", len(s.Log)-s.EvalErrSeq, ctx())
		}
	default: // a cancellation
		if s.Err == nil {
			if !complete {
				c.Fail("cancel-ignored", "the context was cancelled before event #%d, Execute returned nil although the protocol was not complete\n%s", s.CancelSeq, ctx())
			}
			c.Count("probe.nil_after_cancel_protocol_complete")
		} else if s.FaultKind == FaultDeadline {
			if !errors.Is(s.Err, context.DeadlineExceeded) {
				c.Fail("error-not-returned", "the context's deadline expired but Execute returned %v\n%s", s.Err, ctx())
			}
		} else if !errors.Is(s.Err, context.Canceled) {
			c.Fail("error-not-returned", "the context was cancelled but Execute returned %v\n%s", s.Err, ctx())
		}
		for _, e := range s.Log[minInt(s.CancelSeq, len(s.Log)):] {
			if e.Kind == "eval" {
				c.Fail("eval-after-cancel", "evaluation %s began after the context had been cancelled (before event #%d)\n%s", e, s.CancelSeq, ctx())
			}
		}
	}
	// 3. populations: fresh per trial, spawned from the start genome, turned over exactly between unsolved generations
	seenPops := map[*genetics.Population]int{}
	for i, pop := range s.EvalPops {
		tr, g := s.EvalTrial[i], s.EvalGen[i]
		if prevTrial, ok := seenPops[pop]; ok && prevTrial != tr {
			c.Fail("population-reused", "trial %d is evaluated on the population object of trial %d\n%s", tr, prevTrial, ctx())
		}
		seenPops[pop] = tr
		if g == 0 {
			if !s.EvalTopoOK[i] {
				c.Fail("not-freshly-spawned", "generation 0 of trial %d is not a spawn of the start genome (topology differs)\n%s", tr, ctx())
			}
			for _, og := range s.EvalOrgGens[i] {
				if og != 1 {
					c.Fail("not-freshly-spawned", "generation 0 of trial %d contains an organism born in a turnover (generation mark %d)\n%s", tr, og, ctx())
				}
			}
		} else {
			for _, og := range s.EvalOrgGens[i] {
				if og != g-1 {
					c.Fail("turnover-count", "generation %d of trial %d is evaluated on an organism born in turnover %d; exactly one turnover must separate consecutive generations\n%s", g, tr, og, ctx())
				}
			}
			if i > 0 && s.EvalTrial[i-1] == tr && s.EvalPops[i-1] != pop {
				c.Fail("population-switched", "trial %d switched to another population object at generation %d\n%s", tr, g, ctx())
			}
		}
	}
	// a solved generation's population is not turned over afterwards
	for i, pop := range s.EvalPops {
		tr, g := s.EvalTrial[i], s.EvalGen[i]
		if tr < len(s.SolvedAt) && s.SolvedAt[tr] == g {
			same := len(pop.Organisms) == len(s.EvalOrgs[i])
			if same {
				for k, o := range pop.Organisms {
					if o != s.EvalOrgs[i][k] {
						same = false
					}
				}
			}
			if !same {
				c.Fail("solved-population-turned-over", "trial %d was reported solved in generation %d but its population was turned over afterwards\n%s", tr, g, ctx())
			}
		}
	}
	// 4. recorded results of the trials that finished
	finished := 0
	// a trial is finished when all its evaluations ran and (observer or not) the run went on or ended normally
	evalsPerTrial := map[int]int{}
	for _, t := range s.EvalTrial {
		evalsPerTrial[t]++
	}
	for t := 0; t < s.Opts.NumRuns; t++ {
		want := s.Opts.NumGenerations
		if s.SolvedAt[t] >= 0 {
			want = s.SolvedAt[t] + 1
		}
		laterTrialSeen := false
		for _, e := range s.Log {
			if e.Trial > t {
				laterTrialSeen = true
			}
		}
		done := evalsPerTrial[t] == want && (laterTrialSeen || evalsPerTrial[t+1] > 0 || s.Err == nil)
		if !done {
			break
		}
		finished++
		if t >= len(s.Exp.Trials) {
			c.Fail("trial-not-recorded", "trial %d finished but the experiment holds only %d trial records\n%s", t, len(s.Exp.Trials), ctx())
		}
		rec := s.Exp.Trials[t]
		if rec.Id != t {
			c.Fail("trial-record", "record %d carries trial id %d\n%s", t, rec.Id, ctx())
		}
		if len(rec.Generations) != want {
			c.Fail("trial-record", "trial %d evaluated %d generations but its record holds %d\n%s", t, want, len(rec.Generations), ctx())
		}
		for g, gr := range rec.Generations {
			if gr.Id != g || gr.TrialId != t {
				c.Fail("trial-record", "generation record %d of trial %d carries ids (trial %d, generation %d)\n%s", g, t, gr.TrialId, gr.Id, ctx())
			}
			if gr.Solved != (s.SolvedAt[t] == g) {
				c.Fail("trial-record", "generation %d of trial %d is recorded solved=%t, the evaluator reported %t\n%s", g, t, gr.Solved, s.SolvedAt[t] == g, ctx())
			}
		}
	}
	if s.FaultSeq < 0 && finished != s.Opts.NumRuns {
		c.Fail("trial-not-recorded", "only %d of %d trials count as finished in a fault-free run\n%s", finished, s.Opts.NumRuns, ctx())
	}
}

func minInt(a, b int) int {
	if a < b {
		return a
	}
	return b
}

// allSingleFaults enumerates every single-fault point of a shape.
func allSingleFaults(s *ExpSim) []FaultSpec {
	var fs []FaultSpec
	for t := 0; t < s.Opts.NumRuns; t++ {
		last := s.Opts.NumGenerations - 1
		if s.SolvedAt[t] >= 0 {
			last = s.SolvedAt[t]
		}
		if s.Observer {
			fs = append(fs, FaultSpec{Kind: FaultCancelInTrialStarted, Trial: t}, FaultSpec{Kind: FaultCancelInTrialFinished, Trial: t})
		}
		for g := 0; g <= last; g++ {
			for _, k := range []int{FaultEvalError, FaultCancelEvalEntry, FaultCancelEvalMid, FaultCancelEvalExit} {
				fs = append(fs, FaultSpec{Kind: k, Trial: t, Gen: g})
			}
			if s.Observer {
				fs = append(fs, FaultSpec{Kind: FaultCancelInEpochEvaluated, Trial: t, Gen: g})
			}
			if s.SolvedAt[t] == g {
				fs = append(fs, FaultSpec{Kind: FaultEvalErrorAfterSolved, Trial: t, Gen: g})
			}
			if s.SolvedAt[t] != g {
				fs = append(fs, FaultSpec{Kind: FaultCancelAtPrepared, Trial: t, Gen: g}, FaultSpec{Kind: FaultCancelAtSpeciate, Trial: t, Gen: g})
				for _, k := range []int{0, 1, s.Opts.PopSize - 1} {
					fs = append(fs, FaultSpec{Kind: FaultCancelAtOffspring, Trial: t, Gen: g, K: k})
				}
			}
		}
	}
	return fs
}

func drawFault(t *Tape, s *ExpSim) FaultSpec {
	f := FaultSpec{Kind: 1 + t.Draw("fault.kind", numFaultKinds-1)}
	f.Trial = t.Draw("fault.trial", s.Opts.NumRuns)
	f.Gen = t.Draw("fault.gen", s.Opts.NumGenerations)
	f.K = t.Draw("fault.k", s.Opts.PopSize)
	return f
}

func runExpOnce(c *RunCtx, s *ExpSim) {
	var sched *Sched
	if s.Opts.EpochExecutorType == neat.EpochExecutorTypeParallel {
		sched = NewSched(c.T)
		genetics.Verif = sched.Hooks()
		defer func() { genetics.Verif = nil }()
		c.Count("probe.parallel")
	}
	s.Log, s.EvalPops, s.EvalTrial, s.EvalGen, s.EvalOrgs, s.EvalOrgGens, s.EvalTopoOK = nil, nil, nil, nil, nil, nil, nil
	s.evalCalls, s.timers, s.SimElapsed, s.inEpoch = 0, nil, 0, false
	rand := int64(c.T.Draw("exec.libseed", 1<<31))
	seedLib(rand)
	s.Run(c.Lib)
	c.Steps++
	c.SimNanos += int64(s.SimElapsed)
	for k, v := range s.Fired {
		c.CountN(k, v)
	}
	c.Op("Execute: %s -> err=%v, %d events, fault fired before event #%d", s.Describe(), s.Err, len(s.Log), s.FaultSeq)
	checkProtocol(c, s)
	// accounting
	h := Mix(uint64(s.Opts.NumRuns), uint64(s.Opts.NumGenerations), b2u(s.Observer))
	for _, sv := range s.SolvedAt {
		h = Mix(h, uint64(sv+1))
	}
	for _, f := range s.Faults {
		h = Mix(h, uint64(f.Kind), uint64(f.Trial), uint64(f.Gen), uint64(f.K))
	}
	c.State(h)
	early := false
	for _, sv := range s.SolvedAt {
		switch {
		case sv < 0:
			c.Count("probe.unsolved_trial")
		case sv == s.Opts.NumGenerations-1:
			c.Count("probe.solved_last_generation")
		default:
			c.Count("probe.solved_early")
			early = true
		}
	}
	if s.FaultSeq >= 0 || early {
		c.Nontrivial(h)
	}
	if s.FaultSeq < 0 {
		c.Count("probe.fault_free_run")
	}
	if !s.Observer {
		c.Count("probe.no_observer")
	}
}

func scenarioC20(c *RunCtx) {
	t := c.T
	// one run in forty drives the shipped command-line runner instead (its -trials option, what it saves)
	if os.Getenv("VERIF_CLI_BIN") != "" && t.Chance("commandLineRunner", 1, 40) {
		scenarioC20CLI(c)
		return
	}
	maxTrials, maxGens, maxPop := 3, 4, 10
	if c.Thorough {
		maxTrials, maxGens, maxPop = 4, 6, 20
	}
	s := DrawExpSim(c, maxTrials, maxGens, maxPop, true)
	mode := t.Pick("faultmode", 3, 6, 2, 1)
	if c.Thorough && mode == 3 && t.Chance("moreSweeps", 1, 2) {
		mode = 3
	}
	// a caller may hand Execute an experiment object whose Trials slice already exists (reuse, own sizing): exactly the
	// configured number of trials must run all the same (drawn last so that older tapes keep their meaning)
	if t.Chance("preallocatedTrials", 1, 4) {
		s.PreTrials = s.Opts.NumRuns + t.Draw("preallocatedTrials.extra", 3)
		c.Count("probe.preallocated_trials")
		if t.Chance("preallocatedTrials.used", 1, 2) {
			s.PreTrialsUsed = true
			c.Count("probe.reused_experiment_object")
		}
	}
	// zero generations (and then nothing to solve) is a legal configuration: trials start and finish, nothing is evaluated
	if t.Chance("zeroGenerations", 1, 16) {
		s.Opts.NumGenerations = 0
		for i := range s.SolvedAt {
			s.SolvedAt[i] = -1
		}
		c.Count("probe.zero_generations")
	}
	// a context with a deadline instead of a cancel call: under the fake clock it expires at a simulated instant in the
	// middle of some evaluation (the sequential executor only: the parallel one runs outside the bubble)
	if HasFakeClock && s.Opts.EpochExecutorType == neat.EpochExecutorTypeSequential && s.Opts.NumGenerations > 0 && t.Chance("deadline", 1, 8) {
		var total int64
		evals := 0
		for _, e := range s.IdealLog() {
			if e.Kind == "eval" {
				total += s.SleepNs[evals%len(s.SleepNs)]
				evals++
			}
		}
		if total > 1 {
			s.DeadlineNs = 1 + int64(t.Draw("deadline.at", 1<<20))*total/(1<<20)
			mode = 0
			c.Count("probe.deadline_context")
		}
	}
	// what an evaluator error looks like: plain, or one that also wraps the error of a context of the evaluator's own
	s.EvalErrFlavor = t.Pick("evalErrFlavor", 2, 1, 1)
	c.Sample = s.Describe()
	switch mode {
	case 0:
		runExpOnce(c, s)
	case 1:
		s.Faults = []FaultSpec{drawFault(t, s)}
		runExpOnce(c, s)
	case 2:
		c.Count("probe.multi_fault")
		n := 2 + t.Draw("nfaults", 2)
		for i := 0; i < n; i++ {
			s.Faults = append(s.Faults, drawFault(t, s))
		}
		runExpOnce(c, s)
	case 3:
		// sweep: every single-fault point of this shape, one Execute each (complete for the shape)
		if s.Opts.NumRuns > 3 || s.Opts.NumGenerations > 4 {
			s.Opts.NumRuns, s.Opts.NumGenerations = minInt(s.Opts.NumRuns, 3), minInt(s.Opts.NumGenerations, 4)
			s.SolvedAt = s.SolvedAt[:s.Opts.NumRuns]
			for i := range s.SolvedAt {
				if s.SolvedAt[i] >= s.Opts.NumGenerations {
					s.SolvedAt[i] = s.Opts.NumGenerations - 1
				}
			}
		}
		c.Count("probe.single_fault_sweep")
		for _, f := range allSingleFaults(s) {
			s.Faults = []FaultSpec{f}
			runExpOnce(c, s)
		}
	}
}
