package sim

import (
	"context"
	"errors"
	"fmt"
	"time"

	"github.com/yaricom/goNEAT/v4/experiment"
	"github.com/yaricom/goNEAT/v4/neat"
	"github.com/yaricom/goNEAT/v4/neat/genetics"
)

// ErrInjectedEval is the evaluator error injected by the simulator.
var ErrInjectedEval = errors.New("simulated evaluator failure")

// Event is one entry of the protocol log shared by the stub evaluator and the stub observer.
type Event struct {
	Seq   int
	Kind  string // trial.start | eval | epoch.evaluated | trial.finish
	Trial int
	Gen   int
}

func (e Event) String() string {
	switch e.Kind {
	case "trial.start", "trial.finish":
		return fmt.Sprintf("%s(%d)", e.Kind, e.Trial)
	}
	return fmt.Sprintf("%s(%d,%d)", e.Kind, e.Trial, e.Gen)
}

// Fault points of an experiment run.
const (
	FaultNone = iota
	FaultEvalError
	FaultCancelEvalEntry
	FaultCancelEvalMid // by a timer at a simulated instant (fake clock) or directly
	FaultCancelEvalExit
	FaultCancelInTrialStarted
	FaultCancelInEpochEvaluated
	FaultCancelInTrialFinished
	FaultCancelAtPrepared
	FaultCancelAtOffspring
	FaultCancelAtSpeciate
	FaultEvalErrorAfterSolved // the evaluator marks the generation solved and then fails (found a winner, could not save it)
	numFaultKinds
	// FaultDeadline is not placed at a (trial, generation): it is the context's own deadline (ExpSim.DeadlineNs)
	FaultDeadline = 100
)

var FaultNames = []string{"none", "eval-error", "cancel@eval-entry", "cancel@eval-mid(timer)", "cancel@eval-exit", "cancel@TrialRunStarted",
	"cancel@EpochEvaluated", "cancel@TrialRunFinished", "cancel@epoch.prepared", "cancel@offspring-k", "cancel@speciate.begin", "eval-error-after-solved"}

// FaultSpec places one fault at (trial, generation).
type FaultSpec struct {
	Kind  int
	Trial int
	Gen   int
	K     int // offspring index for FaultCancelAtOffspring
}

func (f FaultSpec) String() string {
	if f.Kind == FaultNone {
		return "none"
	}
	return fmt.Sprintf("%s at trial %d generation %d (k=%d)", FaultNames[f.Kind], f.Trial, f.Gen, f.K)
}

// ExpSim is one simulated experiment: scripted evaluator and observer around the real Experiment.Execute.
type ExpSim struct {
	C          *RunCtx
	Opts       *neat.Options
	Start      *genetics.Genome
	Land       *Landscape
	SolvedAt   []int // per trial: generation reported solved, -1 never
	Observer   bool
	Faults     []FaultSpec
	SleepNs    []int64 // simulated evaluation time per call (cycled)
	Log        []Event
	Cancel     context.CancelFunc
	FaultSeq   int // Seq of the first fault fired, -1 none
	FaultKind  int
	CancelSeq  int // log length when the context was first cancelled, -1 never
	EvalErrSeq int // log length when the evaluator returned the injected error, -1 never
	// EvalErrFlavor: what the injected evaluator error looks like. 0: a plain wrapped error; 1 / 2: it also wraps
	// context.Canceled / context.DeadlineExceeded - the error of a context of the evaluator's own (a per-generation time
	// budget, a client call that timed out) while the context of the run is alive
	EvalErrFlavor int
	Fired         map[string]int
	// per evaluation observations
	EvalPops    []*genetics.Population
	EvalTrial   []int
	EvalGen     []int
	EvalOrgs    [][]*genetics.Organism
	EvalOrgGens [][]int
	EvalTopoOK  []bool
	curTrial    int
	curGen      int
	offspring   int
	evalCalls   int
	startTopo   string
	timers      []*time.Timer
	SimElapsed  time.Duration
	Exp         *experiment.Experiment
	Err         error
	fakeClock   bool
	// PreTrials > 0: the Experiment object is handed to Execute with a Trials slice of that length already allocated
	// (a reused experiment object, or one sized by the caller); 0 = nil slice
	PreTrials int
	// PreTrialsUsed: the preallocated slots still hold the records of an earlier execution
	PreTrialsUsed bool
	// WinnerRecordWhenUnsolved: the evaluator also fills the winner fields of generations it does not report solved (a
	// two-stage evaluator that found a candidate which then failed the second test does that)
	WinnerRecordWhenUnsolved bool
	// DeadlineNs > 0: the run's context carries a deadline that many simulated nanoseconds after the start (fake clock
	// only); it expires while some evaluation is in progress, since evaluations are the only thing that takes time
	DeadlineNs int64
	baseCtx    context.Context
	// NoBubble forces the real clock even when a fake one is available (C17 compares both)
	NoBubble bool
	// OnEval, when set, observes the population at every evaluator entry
	OnEval        func(trial, gen int, pop *genetics.Population)
	inEpoch       bool
	speciateCalls int
}

func (s *ExpSim) logEvent(kind string, trial, gen int) int {
	s.Log = append(s.Log, Event{Seq: len(s.Log), Kind: kind, Trial: trial, Gen: gen})
	return len(s.Log) - 1
}

func (s *ExpSim) fire(f FaultSpec) {
	if s.FaultSeq < 0 {
		s.FaultSeq = len(s.Log)
		s.FaultKind = f.Kind
	}
	s.Fired["fault."+FaultNames[f.Kind]]++
	if s.CancelSeq < 0 {
		s.CancelSeq = len(s.Log)
	}
	s.Cancel()
}

func (s *ExpSim) faultAt(kind, trial, gen int) *FaultSpec {
	for i := range s.Faults {
		f := &s.Faults[i]
		if f.Kind == kind && f.Trial == trial && f.Gen == gen {
			return f
		}
	}
	return nil
}

// GenerationEvaluate is the scripted evaluator.
func (s *ExpSim) GenerationEvaluate(ctx context.Context, pop *genetics.Population, epoch *experiment.Generation) error {
	trial, gen := epoch.TrialId, epoch.Id
	s.curTrial, s.curGen = trial, gen
	s.logEvent("eval", trial, gen)
	s.evalCalls++
	// observations for the oracle
	s.EvalPops = append(s.EvalPops, pop)
	s.EvalTrial = append(s.EvalTrial, trial)
	s.EvalGen = append(s.EvalGen, gen)
	orgs := append([]*genetics.Organism(nil), pop.Organisms...)
	s.EvalOrgs = append(s.EvalOrgs, orgs)
	gens := make([]int, len(orgs))
	topo := true
	for i, o := range orgs {
		gens[i] = o.Generation
		if gen == 0 && Canon(o.Genotype).TopologyDump() != s.startTopo {
			topo = false
		}
	}
	s.EvalOrgGens = append(s.EvalOrgGens, gens)
	s.EvalTopoOK = append(s.EvalTopoOK, topo)
	if s.OnEval != nil {
		s.OnEval(trial, gen, pop)
	}

	if f := s.faultAt(FaultCancelEvalEntry, trial, gen); f != nil {
		s.fire(*f)
	}
	sleep := time.Duration(0)
	if len(s.SleepNs) > 0 {
		sleep = time.Duration(s.SleepNs[(s.evalCalls-1)%len(s.SleepNs)])
	}
	if f := s.faultAt(FaultCancelEvalMid, trial, gen); f != nil {
		if s.fakeClock && sleep > 1 {
			ff := *f
			tm := time.AfterFunc(sleep/2, func() { s.fire(ff) })
			s.timers = append(s.timers, tm)
		} else {
			s.fire(*f)
		}
	}
	if s.fakeClock && sleep > 0 {
		time.Sleep(sleep)
		s.SimElapsed += sleep
	}
	if s.DeadlineNs > 0 && s.baseCtx != nil && s.baseCtx.Err() != nil && s.CancelSeq < 0 {
		// the deadline passed while this evaluation was in progress
		s.CancelSeq = len(s.Log)
		if s.FaultSeq < 0 {
			s.FaultSeq = len(s.Log)
			s.FaultKind = FaultDeadline
		}
		s.Fired["fault.deadline-expired@eval-mid"]++
	}
	if f := s.faultAt(FaultEvalError, trial, gen); f != nil {
		if s.FaultSeq < 0 {
			s.FaultSeq = len(s.Log)
			s.FaultKind = f.Kind
		}
		s.Fired["fault."+FaultNames[f.Kind]]++
		s.EvalErrSeq = len(s.Log)
		return s.evalErr(fmt.Sprintf("generation %d of trial %d", gen, trial))
	}
	// assign fitness
	var best *genetics.Organism
	for i, o := range pop.Organisms {
		o.Fitness = s.Land.Fitness(gen+trial*131, i, o.Genotype)
		o.Error = 1 / (1 + o.Fitness)
		if best == nil || o.Fitness > best.Fitness {
			best = o
		}
	}
	if trial < len(s.SolvedAt) && s.SolvedAt[trial] == gen && best != nil {
		best.IsWinner = true
		epoch.Solved = true
		epoch.WinnerNodes = len(best.Genotype.Nodes)
		epoch.WinnerGenes = best.Genotype.Extrons()
		epoch.WinnerEvals = s.Opts.PopSize*epoch.Id + best.Genotype.Id
		epoch.Champion = best
	}
	if s.WinnerRecordWhenUnsolved && !epoch.Solved && best != nil && (gen+trial)%2 == 0 {
		epoch.WinnerNodes = len(best.Genotype.Nodes)
		epoch.WinnerGenes = best.Genotype.Extrons()
		epoch.WinnerEvals = s.Opts.PopSize*epoch.Id + best.Genotype.Id + 1
	}
	epoch.FillPopulationStatistics(pop)
	if f := s.faultAt(FaultEvalErrorAfterSolved, trial, gen); f != nil && epoch.Solved {
		if s.FaultSeq < 0 {
			s.FaultSeq = len(s.Log)
			s.FaultKind = f.Kind
		}
		s.Fired["fault."+FaultNames[f.Kind]]++
		s.EvalErrSeq = len(s.Log)
		return s.evalErr(fmt.Sprintf("generation %d of trial %d solved, but", gen, trial))
	}
	if f := s.faultAt(FaultCancelEvalExit, trial, gen); f != nil {
		s.fire(*f)
	}
	return nil
}

func (s *ExpSim) evalErr(where string) error {
	switch s.EvalErrFlavor {
	case 1:
		s.Fired["fault.eval-error-wraps-context-canceled"]++
		return fmt.Errorf("%s: %w (the evaluator's own context: %w)", where, ErrInjectedEval, context.Canceled)
	case 2:
		s.Fired["fault.eval-error-wraps-deadline-exceeded"]++
		return fmt.Errorf("%s: %w (the evaluator's own time budget: %w)", where, ErrInjectedEval, context.DeadlineExceeded)
	}
	return fmt.Errorf("%s: %w", where, ErrInjectedEval)
}

// observer callbacks
type expObserver struct{ s *ExpSim }

func (o expObserver) TrialRunStarted(trial *experiment.Trial) {
	s := o.s
	s.curTrial, s.curGen = trial.Id, -1
	s.logEvent("trial.start", trial.Id, -1)
	for i := range s.Faults {
		if f := s.Faults[i]; f.Kind == FaultCancelInTrialStarted && f.Trial == trial.Id {
			s.fire(f)
		}
	}
}

func (o expObserver) TrialRunFinished(trial *experiment.Trial) {
	s := o.s
	s.logEvent("trial.finish", trial.Id, -1)
	for i := range s.Faults {
		if f := s.Faults[i]; f.Kind == FaultCancelInTrialFinished && f.Trial == trial.Id {
			s.fire(f)
		}
	}
}

func (o expObserver) EpochEvaluated(trial *experiment.Trial, epoch *experiment.Generation) {
	s := o.s
	s.logEvent("epoch.evaluated", trial.Id, epoch.Id)
	if f := s.faultAt(FaultCancelInEpochEvaluated, trial.Id, epoch.Id); f != nil {
		s.fire(*f)
	}
}

// Run executes the experiment with the hooks for in-epoch faults installed.
func (s *ExpSim) Run(lib func(string, func())) {
	s.FaultSeq, s.CancelSeq, s.EvalErrSeq = -1, -1, -1
	s.Fired = map[string]int{}
	s.startTopo = Canon(s.Start).TopologyDump()
	s.fakeClock = HasFakeClock && !s.NoBubble && s.Opts.EpochExecutorType == neat.EpochExecutorTypeSequential
	body := func() {
		base, cancel := context.WithCancel(context.Background())
		if s.DeadlineNs > 0 && s.fakeClock {
			base, cancel = context.WithTimeout(context.Background(), time.Duration(s.DeadlineNs))
		}
		s.baseCtx = base
		s.Cancel = cancel
		defer cancel()
		ctx := neat.NewContext(base, s.Opts)
		prev := genetics.Verif
		hooks := &genetics.VerifHooks{}
		if prev != nil {
			*hooks = *prev
		}
		hooks.Observe = func(event string, pop *genetics.Population, _ []*genetics.Organism, _ []*genetics.Species) {
			if s.curGen < 0 {
				return // speciation of the constructor: not inside an epoch
			}
			switch event {
			case "epoch.prepared":
				s.offspring = 0
				s.inEpoch = true
				if f := s.faultAt(FaultCancelAtPrepared, s.curTrial, s.curGen); f != nil {
					s.fire(*f)
				}
			case "speciate.begin":
				if !s.inEpoch {
					return
				}
				s.inEpoch = false
				if f := s.faultAt(FaultCancelAtSpeciate, s.curTrial, s.curGen); f != nil {
					s.fire(*f)
				}
			}
		}
		prevYield := hooks.Yield
		hooks.Yield = func(tag string) {
			if tag == "offspring" && s.inEpoch {
				if f := s.faultAt(FaultCancelAtOffspring, s.curTrial, s.curGen); f != nil && f.K == s.offspring {
					s.fire(*f)
				}
				s.offspring++
			}
			if prevYield != nil {
				prevYield(tag)
			}
		}
		genetics.Verif = hooks
		defer func() { genetics.Verif = prev }()
		s.Exp = &experiment.Experiment{Id: 1, Name: "sim"}
		if s.PreTrials > 0 {
			s.Exp.Trials = make(experiment.Trials, s.PreTrials)
			for i := range s.Exp.Trials {
				s.Exp.Trials[i].Id = -7 - i
				if s.PreTrialsUsed {
					// what an earlier Execute on this experiment object (a retry after an error, a second experiment) left
					s.Exp.Trials[i].Generations = experiment.Generations{{Id: 0, TrialId: i, Solved: i%2 == 0}, {Id: 1, TrialId: i}}
					s.Exp.Trials[i].Duration = time.Duration(1+i) * time.Second
				}
			}
		}
		var obs experiment.TrialRunObserver
		if s.Observer {
			obs = expObserver{s}
		}
		lib("Experiment.Execute", func() {
			s.Err = s.Exp.Execute(ctx, s.Start, s, obs)
		})
		for _, tm := range s.timers {
			tm.Stop()
		}
	}
	if s.fakeClock {
		InBubble(body)
	} else {
		body()
	}
}

// IdealLog is the protocol's event sequence for the scripted solved pattern (no faults).
func (s *ExpSim) IdealLog() []Event {
	var ideal []Event
	for t := 0; t < s.Opts.NumRuns; t++ {
		if s.Observer {
			ideal = append(ideal, Event{Kind: "trial.start", Trial: t, Gen: -1})
		}
		for g := 0; g < s.Opts.NumGenerations; g++ {
			ideal = append(ideal, Event{Kind: "eval", Trial: t, Gen: g})
			if s.Observer {
				ideal = append(ideal, Event{Kind: "epoch.evaluated", Trial: t, Gen: g})
			}
			if t < len(s.SolvedAt) && s.SolvedAt[t] == g {
				break
			}
		}
		if s.Observer {
			ideal = append(ideal, Event{Kind: "trial.finish", Trial: t, Gen: -1})
		}
	}
	return ideal
}

// DrawExpSim draws a small experiment shape.
func DrawExpSim(c *RunCtx, maxTrials, maxGens, maxPop int, parallelAllowed bool) *ExpSim {
	t := c.T
	QuietLogs()
	SeedLibrary(t)
	par := 0
	if parallelAllowed {
		par = 2
	}
	opts := DrawOptions(t, OptProfile{MinPop: 3, MaxPop: maxPop, Parallel: par, Structural: t.Pick("structural", 1, 1), AllowStolen: true, ManySpecies: t.Chance("manySpecies", 1, 3)})
	opts.NumRuns = t.Range("NumRuns", 1, maxTrials)
	opts.NumGenerations = t.Range("NumGenerations", 1, maxGens)
	s := &ExpSim{C: c, Opts: opts, Observer: !t.Chance("noObserver", 1, 4)}
	if t.Chance("shippedStart", 1, 3) {
		if g, err := LoadShipped(shippedPlain[t.Draw("shipped", len(shippedPlain))]); err == nil {
			s.Start = g
		}
	}
	if s.Start == nil {
		s.Start = BuildGenome(t, GenomeSpec{AllowDisabled: true, MaxHidden: 2})
	}
	s.Land = DrawLandscape(t, PositiveLands)
	for tr := 0; tr < opts.NumRuns; tr++ {
		sv := -1
		if t.Chance("solved?", 1, 2) {
			sv = t.Draw("solvedAt", opts.NumGenerations)
		}
		s.SolvedAt = append(s.SolvedAt, sv)
	}
	n := t.Range("sleeps", 1, 4)
	for i := 0; i < n; i++ {
		s.SleepNs = append(s.SleepNs, int64(1+t.Draw("sleepMs", 5000))*int64(time.Millisecond))
	}
	return s
}

// Describe renders the experiment shape.
func (s *ExpSim) Describe() string {
	pre := ""
	if s.DeadlineNs > 0 {
		pre = fmt.Sprintf(" deadline=%v", time.Duration(s.DeadlineNs))
	}
	if s.PreTrials > 0 {
		pre += fmt.Sprintf(" preallocatedTrials=%d used=%t", s.PreTrials, s.PreTrialsUsed)
	}
	return fmt.Sprintf("trials=%d generations=%d solvedAt=%v observer=%t%s faults=%v %s", s.Opts.NumRuns, s.Opts.NumGenerations, s.SolvedAt, s.Observer, pre, s.Faults, OptSummary(s.Opts))
}
