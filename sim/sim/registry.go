package sim

import "sort"

// Scenario is the simulated check of one property.
type Scenario struct {
	Prop string
	// Run executes one seeded run of the scenario.
	Run func(c *RunCtx)
	// Race: the worker must be built with the Go race detector; a race report is a violation.
	Race bool
	// Instrument: the worker is built against a scratch copy of the tree with statement-level yield points (cmd/instr).
	Instrument bool
	// CLI: the scenario runs the repository's command-line runner; simctl builds it (time.Now rewritten to a simulated
	// clock in a scratch copy of executor.go) and passes its path in VERIF_CLI_BIN.
	CLI bool
	// CrashIsViolation: a crash (stack overflow) or hang of the worker inside a run is a violation, not infrastructure trouble.
	CrashIsViolation bool
	// QuickRuns / ThoroughRuns: number of seeded runs per tier.
	QuickRuns, ThoroughRuns int
	// Level, Technique, Rule and notes for the evidence file.
	Level      string
	Rule       string
	RealParts  []string
	StubParts  []string
	Assumes    []string
	FaultKinds []string // counter-name prefixes that are injected faults
	ProbeNames []string // counters that must be non-zero in a thorough batch (reach probes)
}

var Scenarios = map[string]*Scenario{}

func Register(s *Scenario) { Scenarios[s.Prop] = s }

func ScenarioIds() []string {
	var ids []string
	for k := range Scenarios {
		ids = append(ids, k)
	}
	sort.Strings(ids)
	return ids
}

// RunSeed derives the per-run PRNG seed from the batch seed, the property and the run index.
func RunSeed(seed uint64, prop string, idx int) uint64 {
	return Mix(seed, HashString(prop), uint64(idx))
}
