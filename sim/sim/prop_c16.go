package sim

import (
	"github.com/yaricom/goNEAT/v4/neat/genetics"
)

// C16 — the parallel epoch executor is race-free and preserves all population guarantees.
//
// The worker is built with the Go race detector. The per-species reproduction goroutines are real; which one runs next
// is decided by the tape at every hook point (goroutine start, offspring loop, NextNodeId, NextInnovationNumber,
// StoreInnovation, Innovations). The scheduler synchronises through //go:norace plain memory only, so every
// happens-before edge the detector sees is the library's own. A race report ends the worker with exit code 66 and is
// attributed to the run announced last.

func init() {
	Register(&Scenario{
		Prop: "C16", Run: scenarioC16, Race: true, Instrument: true, QuickRuns: 1600, ThoroughRuns: 40000, Level: "exploration",
		FaultKinds: []string{"fault.cancel_in_reproduction"},
		Rule:       "one run = one seeded world (activation swarm, many species, interspecies mating) with the parallel executor turned over for 1..N epochs, in one epoch of a fifth of the runs with the context cancelled at the k-th offspring, under one tape-chosen scheduling strategy (uniform random at every yield, run-to-completion in a random species order, round-robin, PCT-style priorities with change points); after every epoch the C01 well-formedness, C02 partition and C03 one-number-one-link oracles run; any Go race detector report is a violation, and so are reproduction goroutines that are still alive when NextEpoch has returned (the parent's wg.Wait and channel receives are scheduling points, so an early return is reached exactly when the code allows it). A case is one scheduled epoch; it is non-trivial when at least two reproduction goroutines ran and the schedule switched between them before one finished; distinct = distinct hash of the (task, yield tag) sequence",
		RealParts:  []string{"ParallelPopulationEpochExecutor and everything below it", "real goroutines, sync.Mutex, sync/atomic, channel and WaitGroup of the library", "Go race detector (happens-before) as the oracle for the race half", "math/rand global source (locked) seeded from the tape"},
		StubParts:  []string{"the Go scheduler's choice of which reproduction goroutine proceeds at a hook point (replaced by the tape)", "fitness assignment"},
		Assumes:    []string{"the worker is built against a scratch copy of the tree in which cmd/instr inserted yield points before every statement of the functions that touch shared state (sync/atomic, locks, channels, package-level variables) or receive the population / species list, and (thorough tier) of every function of the crossover and mutation files; interleavings are explored at that granularity plus the hand-placed hook points", "two accesses that the library's own synchronisation happens to order (every call of the seeded global math/rand source takes one mutex) are invisible to the race detector; a switch inside one statement is covered only through the race detector's happens-before analysis", "non-modular genomes"},
		ProbeNames: []string{"probe.tasks>=2", "probe.interleaved_epoch", "probe.structural_in_parallel", "probe.yield.Innovations", "probe.yield.StoreInnovation", "probe.yield.NextInnovationNumber", "probe.yield.NextNodeId"},
	})
}

func scenarioC16(c *RunCtx) {
	t := c.T
	maxPop, maxEpochs := 30, 8
	if c.Thorough {
		maxPop, maxEpochs = 60, 20
	}
	spec := WorldSpec{
		Prof:         OptProfile{MinPop: 3, MaxPop: maxPop, AllowStolen: true, SmallDropOff: t.Chance("smallDropOff", 1, 3), Parallel: 1, ManySpecies: t.Chance("manySpecies", 2, 3), Structural: 1, ActivationSwarm: true},
		Genome:       GenomeSpec{AllowDisabled: true, MaxHidden: 3},
		AllowShipped: true,
	}
	var w *World
	c.LibSoft("construct", func() { w = NewWorld(t, spec) })
	if w.ConstructErr != nil {
		c.Skip("constructor-error")
	}
	sched := NewSched(t)
	sched.Lazy = Instrumented
	genetics.Verif = sched.Hooks()
	defer func() { genetics.Verif = nil }()
	// fault: the context is cancelled at the k-th offspring of a chosen epoch, i.e. inside the reproduction of some
	// species while the others are parked wherever the schedule left them
	faultEpoch, faultK := -1, 0
	if t.Chance("cancel.fault", 1, 5) {
		faultEpoch, faultK = t.Draw("cancel.epoch", 4), t.Draw("cancel.k", 12)
	}
	c.Sample = "sched=" + sched.StrategyName() + " " + w.Describe()
	c.Op("world: %s", c.Sample)
	po := newPartitionOracle(w.Pop)
	ledger := NewInnovLedger()
	if inv, d := ledger.AddPopulation(w.Pop, "after construction"); inv != "" {
		c.Fail(inv, "%s", d)
	}
	epochs := t.Range("epochs", 1, maxEpochs)
	for e := 0; e < epochs; e++ {
		prevSwitches, prevYields, prevHash := sched.Switches, sched.Yields, sched.TraceHash
		nSpecies := len(w.Pop.Species)
		prevMaxInnov := ledger.MaxInnov
		sched.CancelAt = -1
		if e == faultEpoch {
			sched.CancelAt, sched.OnCancel = faultK, w.Cancel
		}
		snap := StepEpoch(c, w, false, &EpochHooks{KeepHooks: func() bool { return sched.Pending() > 0 }}, c.Lib)
		c.Steps++
		if sched.IdentityMismatch > 0 {
			// a goroutine announced itself under another species' id than the one it was spawned for; the scheduler adopted
			// it under a free slot. Not a verdict by itself (the hooks are the harness's own): the race detector and the
			// population oracles judge what the goroutine did.
			c.Count("observe.goroutine_identity_mismatch")
			c.Op("epoch %d: %d reproduction goroutine(s) announced another species id than the one spawned (announced %d, adopted as %d)", e, sched.IdentityMismatch, sched.MismatchIds[0], sched.MismatchIds[1])
		}
		if n := sched.Pending(); n > 0 {
			// NextEpoch has returned although reproduction goroutines of this turnover are still alive. The caller does
			// what callers do next (assign fitness, look at the species) and the stragglers run on: the race detector
			// judges the accesses; goroutines outliving the call are reported in any case.
			c.Count("probe.goroutines_outlive_epoch")
			w.AssignFitness()
			for _, sp := range w.Pop.Species {
				sp.ExpectedOffspring = sp.ExpectedOffspring + 0
			}
			sched.Drain()
			c.Fail("goroutines-outlive-epoch", "world [start=%s] parallel NextEpoch(generation %d) returned (err=%v) while %d reproduction goroutine(s) of that turnover were still running; they went on using the population after the call had returned", w.KindName, e, snap.Err, n)
		}
		if sched.Cancelled {
			c.Count("fault.cancel_in_reproduction")
			c.Op("epoch %d: context cancelled at offspring %d of the turnover, NextEpoch returned %v", e, faultK, snap.Err)
			if snap.Err == nil {
				// the cancellation came too late to be noticed by anybody: a complete, ordinary turnover
				c.Count("observe.cancel_unnoticed")
			} else {
				return // a cancelled turnover leaves the population half-way; nothing more is demanded of it
			}
		}
		c.Op("epoch %d: %d species, %d scheduling decisions, %d switches, err=%v", e, nSpecies, sched.Yields-prevYields, sched.Switches-prevSwitches, snap.Err)
		if snap.Err != nil {
			c.Fail("epoch-error", "world [start=%s] parallel NextEpoch(generation %d) returned error: %v", w.KindName, e, snap.Err)
		}
		if inv, d := po.afterEpoch(w.Pop, snap, w.Opts.PopSize); inv != "" {
			c.Fail(inv, "world [start=%s] after parallel epoch %d: %s", w.KindName, e, d)
		}
		if inv, d := CheckPopulationWellFormed(w.Pop, w.Ancestors, "after parallel epoch"); inv != "" {
			c.Fail(inv, "world [start=%s] epoch %d: %s", w.KindName, e, d)
		}
		if inv, d := ledger.AddPopulation(w.Pop, "after parallel epoch"); inv != "" {
			c.Fail(inv, "world [start=%s] epoch %d: %s", w.KindName, e, d)
		}
		tasks := 0
		if snap.Prepared != nil {
			tasks = len(snap.Prepared.SpeciesLeft)
		}
		if tasks >= 2 {
			c.Count("probe.tasks>=2")
		}
		if ledger.MaxInnov > prevMaxInnov && tasks >= 2 {
			c.Count("probe.structural_in_parallel")
		}
		h := Mix(sched.TraceHash, prevHash)
		c.State(h)
		if tasks >= 2 && sched.Switches-prevSwitches > tasks {
			c.Count("probe.interleaved_epoch")
			c.Nontrivial(h)
		}
	}
	for tag, n := range sched.YieldsByTag() {
		c.CountN("probe.yield."+tag, n)
	}
	c.CountN("sched.switches", sched.Switches)
	c.CountN("sched.decisions", sched.Yields)
	c.Count("sched.strategy." + sched.StrategyName())
}
