// Package worker is the simulation worker: a test binary (so that testing/synctest is available) that executes the
// job given in the VERIF_JOB environment variable and prints JSON lines on stdout.
package worker

import (
	"encoding/json"
	"fmt"
	"os"
	"testing"
	"time"

	"simverif/sim"
)

var theT *testing.T

func TestSim(t *testing.T) {
	theT = t
	spec := os.Getenv("VERIF_JOB")
	if spec == "" {
		t.Skip("no VERIF_JOB")
	}
	var job sim.Job
	if err := json.Unmarshal([]byte(spec), &job); err != nil {
		fmt.Printf("{\"type\":\"error\",\"error\":%q}\n", err.Error())
		os.Exit(2)
	}
	installBubble(t)
	sim.Instrumented = os.Getenv("VERIF_INSTRUMENTED") == "1"
	// per-run watchdog: a run that hangs ends the process with exit 3; the orchestrator attributes it to the run
	// announced last (a verdict only for properties that speak about termination, otherwise exit 2)
	limit := 240
	if wd := os.Getenv("VERIF_WATCHDOG_S"); wd != "" {
		fmt.Sscanf(wd, "%d", &limit)
	}
	if limit > 0 {
		go func() {
			for {
				time.Sleep(500 * time.Millisecond)
				st := sim.RunStartedAt.Load()
				if st != 0 && time.Now().UnixNano()-st > int64(limit)*int64(time.Second) {
					fmt.Printf("{\"type\":\"watchdog\",\"after_s\":%d}\n", limit)
					os.Stdout.Sync()
					os.Exit(3)
				}
			}
		}()
	}
	code := sim.RunJob(&job, os.Stdout)
	os.Stdout.Sync()
	if code == 0 && os.Getenv("VERIF_COVER_DIR") != "" {
		return // reach measurement: let the testing package write the coverage profile
	}
	os.Exit(code)
}
