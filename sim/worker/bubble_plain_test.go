//go:build !go1.25

package worker

import "testing"

func installBubble(t *testing.T) {}
