//go:build go1.25

package worker

import (
	"testing"
	"testing/synctest"

	"simverif/sim"
)

func installBubble(t *testing.T) {
	sim.HasFakeClock = true
	sim.InBubble = func(f func()) {
		var pv interface{}
		panicked := false
		synctest.Test(t, func(t *testing.T) {
			defer func() {
				if r := recover(); r != nil {
					pv, panicked = r, true
				}
			}()
			f()
		})
		if panicked {
			panic(pv)
		}
	}
}
