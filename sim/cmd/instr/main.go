// instr inserts scheduler yield points at statement granularity into a scratch copy of package neat/genetics, so that
// the tape-driven scheduler of the C16 check can interleave the reproduction goroutines between any two statements
// of the code that touches state shared between them (atomics, mutexes, channels, wait groups), not only at the
// hand-placed hook points. Usage: instr <dir of the package copy>. The copy lives under /verif/.build and is rebuilt
// from /repo's working tree by every C16 run; /repo itself is never rewritten.
//
// Rule: a function (or function literal) is instrumented when its source mentions sync/atomic, a sync type, a Lock
// call or a channel operation. In such a function `verifYield("s:<file>:<line>")` is inserted before every statement
// of every nested block, except (a) before the goroutine's verifBegin call in a function literal (the task is not
// registered yet), (b) from the first statement that takes a lock to the end of the function (a task must never park
// while it holds a lock: the others would block in the real mutex and the scheduler would wait for them forever).
package main

import (
	"bytes"
	"fmt"
	"go/ast"
	"go/format"
	"go/parser"
	"go/token"
	"os"
	"path/filepath"
	"strconv"
	"strings"
)

var fset = token.NewFileSet()

// wide (INSTR_WIDE=1): every function of the crossover and mutation files gets yield points as well. They work on
// genomes a task owns, but read parents that another task may read or (after a faulty change) write at the same time.
var wide = os.Getenv("INSTR_WIDE") == "1"
var wideFiles = map[string]bool{"genome_reproduce.go": true, "genome_mutate.go": true}

func src(n ast.Node) string {
	var b bytes.Buffer
	_ = format.Node(&b, fset, n)
	return b.String()
}

// globals are the package-level variables of the package that are not error sentinels (and not the hook variable):
// state every goroutine of the process shares.
var globals = map[string]bool{}

func collectGlobals(files []*ast.File) {
	for _, f := range files {
		for _, d := range f.Decls {
			gd, ok := d.(*ast.GenDecl)
			if !ok || gd.Tok != token.VAR {
				continue
			}
			for _, sp := range gd.Specs {
				vs := sp.(*ast.ValueSpec)
				for i, name := range vs.Names {
					if name.Name == "_" || name.Name == "Verif" {
						continue
					}
					sentinel := false
					if i < len(vs.Values) {
						if call, ok := vs.Values[i].(*ast.CallExpr); ok {
							if sel, ok := call.Fun.(*ast.SelectorExpr); ok {
								if id, ok := sel.X.(*ast.Ident); ok && (id.Name == "errors" || id.Name == "fmt") {
									sentinel = true
								}
							}
						}
					}
					if !sentinel {
						globals[name.Name] = true
					}
				}
			}
		}
	}
}

// takesSharedObjects: the function is handed the population or the species list, the objects every reproduction
// goroutine of an epoch shares. The library's own incidental synchronisation (every call of the global math/rand
// source takes one lock) orders almost any two accesses of two tasks that are released one at a time; only a switch
// between an access and the task's next such call leaves them unordered for the race detector, so these functions get
// yield points between all their statements.
func takesSharedObjects(fd *ast.FuncDecl) bool {
	if fd.Type.Params == nil {
		return false
	}
	for _, f := range fd.Type.Params.List {
		switch src(f.Type) {
		case "*Population", "[]*Species":
			return true
		}
	}
	return false
}

func touchesSharedState(body *ast.BlockStmt) bool {
	found := false
	ast.Inspect(body, func(n ast.Node) bool {
		switch x := n.(type) {
		case *ast.Ident:
			if globals[x.Name] && x.Obj == nil {
				found = true
			}
		case *ast.FuncLit:
			return false // a literal is judged on its own
		case *ast.SendStmt:
			found = true
		case *ast.UnaryExpr:
			if x.Op == token.ARROW && src(x.X) != "ctx.Done()" {
				found = true
			}
		case *ast.SelectorExpr:
			if id, ok := x.X.(*ast.Ident); ok && (id.Name == "atomic" || id.Name == "sync") {
				found = true
			}
			switch x.Sel.Name {
			case "Lock", "RLock", "Unlock", "RUnlock":
				found = true
			case "Wait", "Done", "Add":
				if id, ok := x.X.(*ast.Ident); ok && id.Name == "wg" {
					found = true
				}
			}
		}
		return !found
	})
	return found
}

type fnState struct {
	started  bool // yields may be inserted (false in a goroutine literal until verifBegin has been called)
	lockSeen bool
	file     string
	inserted int
	parent   bool            // the function spawns the reproduction goroutines (it calls verifSpawn)
	chans    map[string]bool // channels made in the function
}

// parentInfo tells whether a function body calls verifSpawn and which identifiers it binds to make(chan ...).
func parentInfo(body *ast.BlockStmt) (bool, map[string]bool) {
	parent := false
	chans := map[string]bool{}
	ast.Inspect(body, func(n ast.Node) bool {
		switch x := n.(type) {
		case *ast.FuncLit:
			return false
		case *ast.CallExpr:
			if id, ok := x.Fun.(*ast.Ident); ok && id.Name == "verifSpawn" {
				parent = true
			}
		case *ast.AssignStmt:
			for i, r := range x.Rhs {
				if call, ok := r.(*ast.CallExpr); ok && i < len(x.Lhs) {
					if f, ok := call.Fun.(*ast.Ident); ok && f.Name == "make" && len(call.Args) > 0 {
						if _, ok := call.Args[0].(*ast.ChanType); ok {
							if id, ok := x.Lhs[i].(*ast.Ident); ok {
								chans[id.Name] = true
							}
						}
					}
				}
			}
		}
		return true
	})
	return parent, chans
}

func isCallTo(stmt ast.Stmt, prefix string) bool {
	var call *ast.CallExpr
	switch s := stmt.(type) {
	case *ast.ExprStmt:
		call, _ = s.X.(*ast.CallExpr)
	case *ast.DeferStmt:
		call = s.Call
	}
	if call == nil {
		return false
	}
	id, ok := call.Fun.(*ast.Ident)
	return ok && strings.HasPrefix(id.Name, prefix)
}

// shallow source of a statement: nested function literals are left out (their locks are their own business)
func takesLock(stmt ast.Stmt) bool {
	found := false
	ast.Inspect(stmt, func(n ast.Node) bool {
		if _, ok := n.(*ast.FuncLit); ok {
			return false
		}
		if call, ok := n.(*ast.CallExpr); ok {
			if sel, ok := call.Fun.(*ast.SelectorExpr); ok && (sel.Sel.Name == "Lock" || sel.Sel.Name == "RLock") {
				found = true
			}
		}
		return true
	})
	return found
}

func yieldStmt(st *fnState, pos token.Pos) ast.Stmt {
	line := fset.Position(pos).Line
	st.inserted++
	return &ast.ExprStmt{X: &ast.CallExpr{Fun: ast.NewIdent("verifYield"),
		Args: []ast.Expr{&ast.BasicLit{Kind: token.STRING, Value: strconv.Quote(fmt.Sprintf("s:%s:%d", st.file, line))}}}}
}

// waitStmts returns the statements to insert before s in a function that spawns the reproduction goroutines (the
// parent): the parent's blocking operations become scheduling points. Before wg.Wait() the scheduler runs the tasks
// until all have ended; before a receive from a channel made in this function it runs them one step at a time until
// the channel holds a value. The parent thereby proceeds exactly as far as a real execution could, and returns early
// exactly when the code lets it (tasks may then still be parked: goroutines that outlive the call).
func (st *fnState) waitStmts(s ast.Stmt) []ast.Stmt {
	if !st.parent {
		return nil
	}
	var res []ast.Stmt
	yield := func(tag string) ast.Stmt {
		st.inserted++
		return &ast.ExprStmt{X: &ast.CallExpr{Fun: ast.NewIdent("verifYield"), Args: []ast.Expr{&ast.BasicLit{Kind: token.STRING, Value: strconv.Quote(tag)}}}}
	}
	seen := map[string]bool{}
	ast.Inspect(s, func(n ast.Node) bool {
		switch x := n.(type) {
		case *ast.FuncLit, *ast.BlockStmt:
			return n == s
		case *ast.CallExpr:
			if sel, ok := x.Fun.(*ast.SelectorExpr); ok && sel.Sel.Name == "Wait" {
				if id, ok := sel.X.(*ast.Ident); ok && id.Name == "wg" && !seen["wg"] {
					seen["wg"] = true
					res = append(res, yield("wait:all"))
				}
			}
		case *ast.UnaryExpr:
			if id, ok := x.X.(*ast.Ident); ok && x.Op == token.ARROW && st.chans[id.Name] && !seen[id.Name] {
				seen[id.Name] = true
				// for len(ch) == 0 { verifYield("wait:recv") }
				res = append(res, &ast.ForStmt{
					Cond: &ast.BinaryExpr{X: &ast.CallExpr{Fun: ast.NewIdent("len"), Args: []ast.Expr{ast.NewIdent(id.Name)}}, Op: token.EQL, Y: &ast.BasicLit{Kind: token.INT, Value: "0"}},
					Body: &ast.BlockStmt{List: []ast.Stmt{yield("wait:recv")}},
				})
			}
		}
		return true
	})
	return res
}

func (st *fnState) list(stmts []ast.Stmt) []ast.Stmt {
	var out []ast.Stmt
	for _, s := range stmts {
		st.children(s)
		out = append(out, st.waitStmts(s)...)
		skip := !st.started || st.lockSeen || isCallTo(s, "verif")
		if _, isDefer := s.(*ast.DeferStmt); isDefer {
			skip = true
		}
		if !skip {
			out = append(out, yieldStmt(st, s.Pos()))
		}
		out = append(out, s)
		if isCallTo(s, "verifBegin") {
			st.started = true
		}
		if takesLock(s) {
			st.lockSeen = true
		}
	}
	return out
}

// children rewrites the blocks nested in a statement and instruments the function literals it contains.
func (st *fnState) children(s ast.Stmt) {
	switch x := s.(type) {
	case *ast.BlockStmt:
		x.List = st.list(x.List)
	case *ast.IfStmt:
		x.Body.List = st.list(x.Body.List)
		if x.Else != nil {
			st.children(x.Else)
		}
	case *ast.ForStmt:
		x.Body.List = st.list(x.Body.List)
	case *ast.RangeStmt:
		x.Body.List = st.list(x.Body.List)
	case *ast.SwitchStmt:
		for _, c := range x.Body.List {
			cc := c.(*ast.CaseClause)
			cc.Body = st.list(cc.Body)
		}
	case *ast.TypeSwitchStmt:
		for _, c := range x.Body.List {
			cc := c.(*ast.CaseClause)
			cc.Body = st.list(cc.Body)
		}
	case *ast.SelectStmt:
		for _, c := range x.Body.List {
			cc := c.(*ast.CommClause)
			cc.Body = st.list(cc.Body)
		}
	case *ast.LabeledStmt:
		st.children(x.Stmt)
	}
	// function literals directly inside this statement (not inside nested blocks, which were handled above)
	ast.Inspect(s, func(n ast.Node) bool {
		switch f := n.(type) {
		case *ast.BlockStmt:
			return false // nested blocks were handled above
		case *ast.FuncLit:
			if touchesSharedState(f.Body) {
				sub := &fnState{started: !strings.Contains(src(f.Body), "verifBegin("), file: st.file}
				f.Body.List = sub.list(f.Body.List)
				st.inserted += sub.inserted
			}
			return false
		}
		return true
	})
}

func main() {
	if len(os.Args) != 2 {
		fmt.Fprintln(os.Stderr, "usage: instr <package dir>")
		os.Exit(2)
	}
	dir := os.Args[1]
	files, _ := filepath.Glob(filepath.Join(dir, "*.go"))
	total := 0
	parsed := map[string]*ast.File{}
	var all []*ast.File
	for _, path := range files {
		base := filepath.Base(path)
		if strings.HasSuffix(base, "_test.go") || strings.HasPrefix(base, "verif_") {
			continue
		}
		f, err := parser.ParseFile(fset, path, nil, parser.SkipObjectResolution) // comments are dropped: positions would no longer fit
		if err != nil {
			fmt.Fprintf(os.Stderr, "instr: %v\n", err)
			os.Exit(2)
		}
		parsed[path] = f
		all = append(all, f)
	}
	collectGlobals(all)
	for _, path := range files {
		base := filepath.Base(path)
		f := parsed[path]
		if f == nil {
			continue
		}
		n := 0
		for _, d := range f.Decls {
			fd, ok := d.(*ast.FuncDecl)
			if !ok || fd.Body == nil {
				continue
			}
			if touchesSharedState(fd.Body) || takesSharedObjects(fd) || (wide && wideFiles[base]) {
				st := &fnState{started: true, file: base}
				st.parent, st.chans = parentInfo(fd.Body)
				fd.Body.List = st.list(fd.Body.List)
				n += st.inserted
			} else {
				// function literals inside an otherwise uninteresting function
				st := &fnState{started: true, lockSeen: true, file: base}
				for _, s := range fd.Body.List {
					st.children(s)
				}
				n += st.inserted
			}
		}
		if n == 0 {
			continue
		}
		var buf bytes.Buffer
		if err := format.Node(&buf, fset, f); err != nil {
			fmt.Fprintf(os.Stderr, "instr: %s: %v\n", base, err)
			os.Exit(2)
		}
		if err := os.WriteFile(path, buf.Bytes(), 0o644); err != nil {
			fmt.Fprintf(os.Stderr, "instr: %v\n", err)
			os.Exit(2)
		}
		fmt.Printf("instr: %s: %d yield points\n", base, n)
		total += n
	}
	fmt.Printf("instr: %d yield points inserted\n", total)
}
