// simctl is the orchestrator: it rebuilds the simulation worker from /repo's working tree (build tag verif), fans the
// seeded runs of a property's scenario out over worker processes, merges what they covered into the evidence file,
// minimises any violation to a replay file and reproduces it in a fresh process.
//
// Exit codes: 0 property held on everything explored; 1 with a "VIOLATION property=<id> replay=<path>" line;
// 2 build failure, worker crash that is not a property, watchdog (never a verdict).
package main

import (
	"bufio"
	"bytes"
	"encoding/json"
	"fmt"
	"os"
	"os/exec"
	"path/filepath"
	"runtime"
	"sort"
	"strconv"
	"strings"
	"sync"
	"sync/atomic"
	"time"

	"simverif/sim"
)

var (
	verifDir = "/verif"
	simDir   = "/verif/sim"
)

func env(extra ...string) []string {
	e := os.Environ()
	e = append(e, "GOFLAGS=-mod=mod", "GOPROXY=off", "GOSUMDB=off", "GOTOOLCHAIN=local", "GONOSUMDB=*", "GONOSUMCHECK=1")
	return append(e, extra...)
}

var coverSeq int64

// coverDir: when VERIF_COVER_DIR names a directory, workers are built with statement coverage of the library and each
// worker process leaves a profile there (tools/cover_report.py merges them). Off by default; never used by the checks
// registered in MANIFEST.json.
func coverDir() string { return os.Getenv("VERIF_COVER_DIR") }

func goTool() string {
	if p, err := exec.LookPath("go1.26.8"); err == nil {
		return p
	}
	return "go"
}

func die2(f string, a ...interface{}) {
	fmt.Fprintf(os.Stderr, "simctl: "+f+"\n", a...)
	os.Exit(2)
}

// buildWorker compiles the worker test binary against /repo's current working tree. instrument: the worker is built
// against a scratch copy of the tree in which package neat/genetics carries statement-level yield points (cmd/instr);
// the copy lives under .build only for the duration of the build.
func buildWorker(tag string, race bool, instrument ...bool) string {
	_ = os.MkdirAll(filepath.Join(verifDir, ".build"), 0o755)
	name := "worker-" + tag
	if race {
		name += "-race"
	}
	outPath := filepath.Join(verifDir, ".build", name+".test")
	args := []string{"test", "-c", "-tags", "verif", "-o", outPath}
	if race {
		args = append(args, "-race")
	}
	if coverDir() != "" {
		// opt-in reach measurement (VERIF_COVER_DIR): statement coverage of the library under the simulation
		args = append(args, "-cover", "-covermode=atomic", "-coverpkg=github.com/yaricom/goNEAT/v4/...")
	}
	if len(instrument) > 0 && instrument[0] {
		modfile, cleanup := instrumentedCopy(name, len(instrument) > 1 && instrument[1])
		defer cleanup()
		args = append(args, "-modfile="+modfile)
	}
	args = append(args, "./worker")
	cmd := exec.Command(goTool(), args...)
	cmd.Dir = simDir
	cmd.Env = env()
	var buf bytes.Buffer
	cmd.Stdout, cmd.Stderr = &buf, &buf
	if err := cmd.Run(); err != nil {
		die2("cannot build the worker from %s: %v\n%s", sim.RepoDir, err, buf.String())
	}
	return outPath
}

func mustRun(dir string, name string, args ...string) string {
	cmd := exec.Command(name, args...)
	cmd.Dir = dir
	cmd.Env = env()
	out, err := cmd.CombinedOutput()
	if err != nil {
		die2("%s %v: %v\n%s", name, args, err, out)
	}
	return string(out)
}

// instrumentedCopy copies the library sources of the tree under test to .build, inserts the statement-level yield
// points and writes a go.mod for the harness that points at the copy. It returns the modfile and a cleanup function.
func instrumentedCopy(name string, wide bool) (string, func()) {
	base := filepath.Join(verifDir, ".build", fmt.Sprintf("instr-%s-%d", name, os.Getpid()))
	copyDir := filepath.Join(base, "repo")
	cleanup := func() { _ = os.RemoveAll(base) }
	_ = os.RemoveAll(base)
	if err := os.MkdirAll(copyDir, 0o755); err != nil {
		die2("cannot create %s: %v", copyDir, err)
	}
	for _, part := range []string{"go.mod", "go.sum", "executor.go", "neat", "experiment"} {
		mustRun("/", "cp", "-r", filepath.Join(sim.RepoDir, part), copyDir+"/")
	}
	instrBin := filepath.Join(base, "instr")
	mustRun(simDir, goTool(), "build", "-o", instrBin, "./cmd/instr")
	if wide {
		// thorough tier: the crossover and mutation files get statement-level yield points as well
		os.Setenv("INSTR_WIDE", "1")
		defer os.Unsetenv("INSTR_WIDE")
	}
	out := mustRun(simDir, instrBin, filepath.Join(copyDir, "neat", "genetics"))
	if !strings.Contains(out, "yield points inserted") {
		die2("instr produced no report: %s", out)
	}
	mod, err := os.ReadFile(filepath.Join(simDir, "go.mod"))
	if err != nil {
		die2("cannot read the harness go.mod: %v", err)
	}
	lines := strings.Split(string(mod), "\n")
	for i, l := range lines {
		if strings.HasPrefix(l, "replace github.com/yaricom/goNEAT/v4 =>") {
			lines[i] = "replace github.com/yaricom/goNEAT/v4 => " + copyDir
		}
	}
	modfile := filepath.Join(base, "go.mod")
	if err := os.WriteFile(modfile, []byte(strings.Join(lines, "\n")), 0o644); err != nil {
		die2("cannot write %s: %v", modfile, err)
	}
	if sum, err := os.ReadFile(filepath.Join(simDir, "go.sum")); err == nil {
		_ = os.WriteFile(filepath.Join(base, "go.sum"), sum, 0o644)
	}
	return modfile, cleanup
}

type workerResult struct {
	exit    int
	lines   []map[string]json.RawMessage
	raw     [][]byte
	stderr  string
	lastIdx int
}

func runWorker(bin string, job *sim.Job, race bool, watchdogS int) *workerResult {
	spec, _ := json.Marshal(job)
	wargs := []string{"-test.run", "^TestSim$", "-test.timeout", "0"}
	if d := coverDir(); d != "" {
		wargs = append(wargs, "-test.coverprofile="+filepath.Join(d, fmt.Sprintf("%s-%d-%d.cov", job.Prop, os.Getpid(), atomic.AddInt64(&coverSeq, 1))))
	}
	cmd := exec.Command(bin, wargs...)
	cmd.Dir = simDir
	gmp := envOr("VERIF_WORKER_GOMAXPROCS", "2")
	if job.Procs > 0 && os.Getenv("VERIF_WORKER_GOMAXPROCS") == "" {
		gmp = strconv.Itoa(job.Procs)
	}
	extra := []string{"VERIF_JOB=" + string(spec), "GOMAXPROCS=" + gmp}
	if race {
		extra = append(extra, "GORACE=halt_on_error=1 exitcode=66")
	}
	if scn := sim.Scenarios[job.Prop]; scn != nil && scn.Instrument {
		extra = append(extra, "VERIF_INSTRUMENTED=1")
	}
	if scn := sim.Scenarios[job.Prop]; scn != nil && scn.CLI {
		extra = append(extra, "VERIF_CLI_BIN="+buildCLI())
	}
	if watchdogS > 0 {
		extra = append(extra, "VERIF_WATCHDOG_S="+strconv.Itoa(watchdogS))
	}
	cmd.Env = env(extra...)
	var out, errb bytes.Buffer
	cmd.Stdout, cmd.Stderr = &out, &errb
	err := cmd.Run()
	res := &workerResult{lastIdx: -1}
	if err != nil {
		if ee, ok := err.(*exec.ExitError); ok {
			res.exit = ee.ExitCode()
		} else {
			res.exit = 2
			errb.WriteString(err.Error())
		}
	}
	res.stderr = errb.String()
	sc := bufio.NewScanner(&out)
	sc.Buffer(make([]byte, 1<<20), 1<<28)
	for sc.Scan() {
		line := sc.Bytes()
		if len(line) == 0 || line[0] != '{' {
			continue
		}
		var m map[string]json.RawMessage
		if json.Unmarshal(line, &m) != nil {
			continue
		}
		cp := append([]byte(nil), line...)
		res.lines = append(res.lines, m)
		res.raw = append(res.raw, cp)
		if string(m["type"]) == `"start"` {
			var idx int
			_ = json.Unmarshal(m["idx"], &idx)
			res.lastIdx = idx
		}
	}
	return res
}

func envOr(k, d string) string {
	if v := os.Getenv(k); v != "" {
		return v
	}
	return d
}

func loadKnown() []sim.KnownFinding {
	data, err := os.ReadFile(filepath.Join(verifDir, "known_findings.json"))
	if err != nil {
		return nil
	}
	var f struct {
		Findings []sim.KnownFinding `json:"findings"`
	}
	if err := json.Unmarshal(data, &f); err != nil {
		die2("known_findings.json does not parse: %v", err)
	}
	return f.Findings
}

// ReplayFile is what a violation is reported as.
type ReplayFile struct {
	Property   string        `json:"property"`
	Tier       string        `json:"tier"`
	Seed       uint64        `json:"seed"`
	RunIndex   int           `json:"run_index"`
	Race       bool          `json:"race"`
	Kind       string        `json:"kind"` // oracle | race | crash
	Violation  sim.Violation `json:"violation"`
	Tape       []uint32      `json:"tape"`
	Minimised  bool          `json:"minimised"`
	ShrinkRuns int           `json:"shrink_runs"`
	Ops        []string      `json:"operations"`
	World      string        `json:"world,omitempty"`
	Counters   []string      `json:"counters,omitempty"`
	Stderr     string        `json:"stderr_excerpt,omitempty"`
	Replay     string        `json:"replay_cmd"`
}

func writeReplay(rf *ReplayFile) string {
	_ = os.MkdirAll(filepath.Join(verifDir, "replays"), 0o755)
	p := filepath.Join(verifDir, "replays", fmt.Sprintf("%s-%d-%d.json", rf.Property, rf.Seed, rf.RunIndex))
	rf.Replay = "./checks/run.sh replay " + p
	b, _ := json.MarshalIndent(rf, "", " ")
	if err := os.WriteFile(p, b, 0o644); err != nil {
		die2("cannot write replay file: %v", err)
	}
	return p
}

func excerpt(s string, n int) string {
	if len(s) > n {
		return s[:n] + "…"
	}
	return s
}

func raceExcerpt(stderr string) string {
	i := strings.Index(stderr, "WARNING: DATA RACE")
	if i < 0 {
		return excerpt(stderr, 3000)
	}
	return excerpt(stderr[i:], 3500)
}

// raceSignature extracts the two top library frames of a race report: a stable name for the invariant.
func raceSignature(stderr string) string {
	var frames []string
	for _, l := range strings.Split(stderr, "\n") {
		l = strings.TrimSpace(l)
		if strings.HasPrefix(l, "github.com/yaricom/goNEAT") {
			f := strings.TrimSuffix(l, "()")
			f = strings.TrimPrefix(f, "github.com/yaricom/goNEAT/v4/")
			dup := false
			for _, x := range frames {
				if x == f {
					dup = true
				}
			}
			if !dup {
				frames = append(frames, f)
			}
			if len(frames) == 2 {
				break
			}
		}
	}
	sort.Strings(frames)
	return "race:" + strings.Join(frames, "|")
}

func main() {
	if d := os.Getenv("VERIF_DIR"); d != "" {
		verifDir = d
		simDir = filepath.Join(d, "sim")
	}
	if len(os.Args) < 2 {
		die2("usage: simctl check <prop> <quick|thorough> | replay <file> | selftest determinism [props...] | list")
	}
	switch os.Args[1] {
	case "check":
		if len(os.Args) < 4 {
			die2("usage: simctl check <prop> <quick|thorough>")
		}
		code := check(os.Args[2], os.Args[3])
		removeCLI()
		os.Exit(code)
	case "replay":
		if len(os.Args) < 3 {
			die2("usage: simctl replay <file>")
		}
		code := replay(os.Args[2])
		removeCLI()
		os.Exit(code)
	case "selftest":
		code := selftest(os.Args[2:])
		removeCLI()
		os.Exit(code)
	case "list":
		for _, id := range sim.ScenarioIds() {
			fmt.Println(id)
		}
	default:
		die2("unknown command %s", os.Args[1])
	}
}

func seedFromEnv() uint64 {
	s := envOr("VERIF_SEED", "20260929")
	v, err := strconv.ParseUint(s, 10, 64)
	if err != nil {
		if iv, err2 := strconv.ParseInt(s, 10, 64); err2 == nil {
			return uint64(iv)
		}
		return sim.HashString(s)
	}
	return v
}

func check(prop, tier string) int {
	start := time.Now()
	scn := sim.Scenarios[prop]
	if scn == nil {
		die2("no scenario for property %s", prop)
	}
	if tier != "quick" && tier != "thorough" {
		die2("tier must be quick or thorough")
	}
	seed := seedFromEnv()
	known := loadKnown()
	bin := buildWorker(prop+"-"+tier, scn.Race, scn.Instrument, tier == "thorough")
	defer os.Remove(bin)
	runs := scn.QuickRuns
	if tier == "thorough" {
		runs = scn.ThoroughRuns
	}
	if v := os.Getenv("VERIF_RUNS"); v != "" {
		if n, err := strconv.Atoi(v); err == nil && n > 0 {
			runs = n
		}
	}
	procs := runtime.NumCPU()
	if v := os.Getenv("VERIF_PROCS"); v != "" {
		if n, err := strconv.Atoi(v); err == nil && n > 0 {
			procs = n
		}
	}
	if procs > runs {
		procs = runs
	}
	// wall-clock cap per batch: the thorough tier stops drawing new runs after 15 minutes by default (counted as
	// budget.stopped_early in the evidence), the quick tier after 4; VERIF_BUDGET_S overrides (0 = no cap)
	budgetMs := 240 * 1000
	if tier == "thorough" {
		budgetMs = 900 * 1000
	}
	if v := os.Getenv("VERIF_BUDGET_S"); v != "" {
		if n, err := strconv.Atoi(v); err == nil {
			budgetMs = n * 1000
		}
	}
	announce := scn.Race || scn.CrashIsViolation || os.Getenv("VERIF_ANNOUNCE") != ""
	only := -1
	if v := os.Getenv("VERIF_ONLY"); v != "" {
		// debugging aid: execute one run index only
		if n, err := strconv.Atoi(v); err == nil {
			only, procs = n, 1
		}
	}
	results := make([]*workerResult, procs)
	var wg sync.WaitGroup
	for p := 0; p < procs; p++ {
		wg.Add(1)
		go func(p int) {
			defer wg.Done()
			job := &sim.Job{Mode: "run", Prop: prop, Tier: tier, Seed: seed, From: p, To: runs, Stride: procs, Known: known, BudgetMs: budgetMs, Announce: announce}
			if only >= 0 {
				job.From, job.To, job.Stride = only, only+1, 1
			}
			if scn.Race {
				// the property quantifies over processor counts: the worker processes of one batch differ in GOMAXPROCS
				// (the schedule itself is decided by the tape, whatever the count)
				job.Procs = []int{1, 2, 2, 4}[p%4]
			}
			results[p] = runWorker(bin, job, scn.Race, 0)
		}(p)
	}
	wg.Wait()

	// merge
	total := sim.Summary{Counters: map[string]int{}}
	states := map[uint64]struct{}{}
	nontriv := map[uint64]struct{}{}
	var found *sim.Found
	var rf *ReplayFile
	infra := ""
	for p, r := range results {
		gotSummary := false
		for i, m := range r.lines {
			switch string(m["type"]) {
			case `"summary"`:
				var s sim.Summary
				_ = json.Unmarshal(r.raw[i], &s)
				gotSummary = true
				total.Runs += s.Runs
				total.Steps += s.Steps
				total.Abandoned += s.Abandoned
				total.TapeLen += s.TapeLen
				total.SimNanos += s.SimNanos
				for k, v := range s.Counters {
					total.Counters[k] += v
				}
				for _, h := range s.States {
					states[h] = struct{}{}
				}
				for _, h := range s.Nontriv {
					nontriv[h] = struct{}{}
				}
				if len(total.Samples) < 4 {
					total.Samples = append(total.Samples, s.Samples...)
				}
				total.KnownHits = append(total.KnownHits, s.KnownHits...)
				if s.Crash != "" && infra == "" {
					infra = s.Crash
				}
			case `"violation"`:
				var f sim.Found
				_ = json.Unmarshal(r.raw[i], &f)
				if found == nil || f.Idx < found.Idx {
					found = &f
				}
			case `"error"`:
				if infra == "" {
					infra = string(r.raw[i])
				}
			}
		}
		switch {
		case r.exit == 66 && scn.Race:
			cand := &ReplayFile{Property: prop, Tier: tier, Seed: seed, RunIndex: r.lastIdx, Race: true, Kind: "race",
				Violation: sim.Violation{Property: prop, Invariant: raceSignature(r.stderr), Detail: "the Go race detector reported a data race while ParallelPopulationEpochExecutor.NextEpoch ran under the tape-driven scheduler"},
				Stderr:    raceExcerpt(r.stderr)}
			if rf == nil || cand.RunIndex < rf.RunIndex {
				rf = cand
			}
		case (r.exit == 3 || (r.exit != 0 && r.exit != 1 && !gotSummary)) && scn.CrashIsViolation && r.lastIdx >= 0 && crashLooksLikeProperty(r):
			kind := "worker crashed (stack overflow)"
			if r.exit == 3 {
				kind = "worker hung (watchdog)"
			}
			cand := &ReplayFile{Property: prop, Tier: tier, Seed: seed, RunIndex: r.lastIdx, Kind: "crash",
				Violation: sim.Violation{Property: prop, Invariant: "non-termination", Detail: kind + " inside run " + strconv.Itoa(r.lastIdx)},
				Stderr:    excerpt(r.stderr, 1500)}
			if rf == nil || cand.RunIndex < rf.RunIndex {
				rf = cand
			}
		case r.exit == 3:
			if infra == "" {
				infra = fmt.Sprintf("worker %d: run %d exceeded the per-run watchdog (hang)", p, r.lastIdx)
			}
		case r.exit != 0 && r.exit != 1:
			if infra == "" {
				infra = fmt.Sprintf("worker %d exited with %d (last run announced: %d): %s", p, r.exit, r.lastIdx, excerpt(r.stderr, 2000))
			}
		case !gotSummary:
			if infra == "" {
				infra = fmt.Sprintf("worker %d produced no summary (exit %d): %s", p, r.exit, excerpt(r.stderr, 2000))
			}
		}
	}
	if infra != "" && found == nil && rf == nil {
		fmt.Fprintf(os.Stderr, "simctl: infrastructure trouble, no verdict: %s\n", infra)
		return 2
	}

	violations := 0
	replayPath := ""
	if found != nil {
		violations = 1
		rf = finishOracleViolation(bin, scn, prop, tier, seed, known, found)
		replayPath = writeReplay(rf)
	} else if rf != nil {
		violations = 1
		finishCrashOrRace(bin, scn, rf, known)
		replayPath = writeReplay(rf)
	}

	// known findings
	for _, k := range known {
		if k.Property == prop && k.Status == "open" {
			hits := total.Counters["known_finding."+k.Id]
			fmt.Printf("KNOWN-FINDING: property=%s %s [id=%s, matched %d times in this batch]\n", prop, k.What, k.Id, hits)
		}
	}
	writeEvidence(scn, prop, tier, seed, &total, states, nontriv, violations, time.Since(start), runs, procs, rf)
	if violations > 0 {
		fmt.Printf("violation: %s — %s\n", rf.Violation.Invariant, excerpt(rf.Violation.Detail, 1500))
		fmt.Printf("VIOLATION property=%s replay=%s\n", prop, replayPath)
		return 1
	}
	fmt.Printf("%s %s: held on %d runs (%d steps, %d distinct states, %d abandoned) in %.1fs\n", prop, tier, total.Runs, total.Steps, len(states), total.Abandoned, time.Since(start).Seconds())
	return 0
}

func crashLooksLikeProperty(r *workerResult) bool {
	return r.exit == 3 || strings.Contains(r.stderr, "stack exceeds") || strings.Contains(r.stderr, "stack overflow")
}

// finishOracleViolation shrinks the tape in a worker process and replays the result in a fresh one.
func finishOracleViolation(bin string, scn *sim.Scenario, prop, tier string, seed uint64, known []sim.KnownFinding, f *sim.Found) *ReplayFile {
	rf := &ReplayFile{Property: prop, Tier: tier, Seed: seed, RunIndex: f.Idx, Race: scn.Race, Kind: "oracle",
		Violation: f.Violation, Tape: f.Tape, Ops: f.Ops, World: f.Sample, Counters: f.Counters}
	want := f.Violation
	job := &sim.Job{Mode: "shrink", Prop: prop, Tier: tier, Seed: seed, Tape: f.Tape, Want: &want, BudgetMs: 60000, Known: known}
	r := runWorker(bin, job, false, 300)
	for i, m := range r.lines {
		if string(m["type"]) == `"violation"` {
			var sf sim.Found
			_ = json.Unmarshal(r.raw[i], &sf)
			// confirm in a fresh process
			rj := &sim.Job{Mode: "replay", Prop: prop, Tier: tier, Seed: seed, Tape: sf.Tape, Known: known}
			rr := runWorker(bin, rj, false, 120)
			if rr.exit == 1 {
				rf.Tape, rf.Ops, rf.World, rf.Counters = sf.Tape, sf.Ops, sf.Sample, sf.Counters
				rf.Violation = sf.Violation
				rf.Minimised = true
				rf.ShrinkRuns = sf.ShrinkTry
			}
		}
	}
	return rf
}

// finishCrashOrRace obtains the tape of the failing run and minimises it with child processes (each candidate is one
// fresh worker process; the failure class must reappear).
func finishCrashOrRace(bin string, scn *sim.Scenario, rf *ReplayFile, known []sim.KnownFinding) {
	// the tape of run idx is a pure function of (seed, property, idx): record it with a build without the race detector
	tapeBin := bin
	if scn.Race {
		tapeBin = buildWorker(rf.Property+"-tape", false, scn.Instrument, rf.Tier == "thorough")
		defer os.Remove(tapeBin)
	}
	// record mode replays: ask the worker for the tape through a traced replay of the recorded run
	spill := filepath.Join(verifDir, ".build", fmt.Sprintf("spill-%s-%d.txt", rf.Property, os.Getpid()))
	defer os.Remove(spill)
	gj := &sim.Job{Mode: "tape", Prop: rf.Property, Tier: rf.Tier, Seed: rf.Seed, From: rf.RunIndex, Known: known, SpillPath: spill}
	gr := runWorker(tapeBin, gj, false, 60)
	for i, m := range gr.lines {
		if string(m["type"]) == `"tape"` {
			var tp struct {
				Tape []uint32 `json:"tape"`
				Ops  []string `json:"ops"`
				S    string   `json:"sample"`
			}
			_ = json.Unmarshal(gr.raw[i], &tp)
			rf.Tape, rf.Ops, rf.World = tp.Tape, tp.Ops, tp.S
		}
	}
	if len(rf.Tape) == 0 {
		// the recording run crashed as well: recover the tape from the spill file
		if data, err := os.ReadFile(spill); err == nil {
			for _, f := range strings.Fields(string(data)) {
				if v, err := strconv.ParseUint(f, 10, 32); err == nil {
					rf.Tape = append(rf.Tape, uint32(v))
				}
			}
		}
	}
	if len(rf.Tape) == 0 {
		return
	}
	fails := func(tape []uint32) bool {
		j := &sim.Job{Mode: "replay", Prop: rf.Property, Tier: rf.Tier, Seed: rf.Seed, Tape: tape, Known: known}
		wd := 0
		if rf.Kind == "crash" {
			wd = 60
		}
		r := runWorker(bin, j, scn.Race, wd)
		if rf.Kind == "race" {
			return r.exit == 66
		}
		return r.exit == 3 || (r.exit != 0 && r.exit != 1 && crashLooksLikeProperty(r))
	}
	if !fails(rf.Tape) {
		return // could not reproduce from the tape alone; keep the unminimised record
	}
	best := rf.Tape
	tries := 1
	deadline := time.Now().Add(120 * time.Second)
	for size := len(best) / 2; size >= 1 && time.Now().Before(deadline) && tries < 80; size /= 2 {
		for i := 0; i+size <= len(best) && time.Now().Before(deadline) && tries < 80; {
			cand := append(append([]uint32(nil), best[:i]...), best[i+size:]...)
			tries++
			if fails(cand) {
				best = cand
			} else {
				i += size
			}
		}
	}
	rf.Tape = best
	rf.Minimised = true
	rf.ShrinkRuns = tries
	// refresh the human readable operation list from the minimised tape (without the race detector, so that it completes)
	dj := &sim.Job{Mode: "replay", Prop: rf.Property, Tier: rf.Tier, Seed: rf.Seed, Tape: best, Known: known}
	dr := runWorker(tapeBin, dj, false, 60)
	for i, m := range dr.lines {
		if string(m["type"]) == `"clean"` {
			var cl struct {
				Ops []string `json:"ops"`
			}
			_ = json.Unmarshal(dr.raw[i], &cl)
			if len(cl.Ops) > 0 {
				rf.Ops = cl.Ops
			}
		}
	}
}

func replay(path string) int {
	data, err := os.ReadFile(path)
	if err != nil {
		die2("cannot read %s: %v", path, err)
	}
	var rf ReplayFile
	if err := json.Unmarshal(data, &rf); err != nil {
		die2("replay file does not parse: %v", err)
	}
	scn := sim.Scenarios[rf.Property]
	if scn == nil {
		die2("no scenario for %s", rf.Property)
	}
	bin := buildWorker(rf.Property+"-replay", scn.Race, scn.Instrument, rf.Tier == "thorough")
	defer os.Remove(bin)
	known := loadKnown()
	job := &sim.Job{Mode: "replay", Prop: rf.Property, Tier: rf.Tier, Seed: rf.Seed, Tape: rf.Tape, Known: known, Trace: os.Getenv("VERIF_TRACE") != ""}
	wd := 0
	if rf.Kind == "crash" {
		wd = 60
	}
	r := runWorker(bin, job, scn.Race, wd)
	for _, raw := range r.raw {
		fmt.Println(string(raw))
	}
	switch rf.Kind {
	case "race":
		if r.exit == 66 {
			fmt.Println(raceExcerpt(r.stderr))
			fmt.Printf("VIOLATION property=%s replay=%s\n", rf.Property, path)
			return 1
		}
	case "crash":
		if r.exit == 3 || (r.exit != 0 && r.exit != 1 && crashLooksLikeProperty(r)) {
			fmt.Printf("VIOLATION property=%s replay=%s\n", rf.Property, path)
			return 1
		}
	default:
		if r.exit == 1 {
			for i, m := range r.lines {
				if string(m["type"]) == `"violation"` {
					var f sim.Found
					_ = json.Unmarshal(r.raw[i], &f)
					if f.Violation.Invariant != rf.Violation.Invariant {
						fmt.Printf("note: replay violated %q, the file recorded %q\n", f.Violation.Invariant, rf.Violation.Invariant)
					}
				}
			}
			fmt.Printf("VIOLATION property=%s replay=%s\n", rf.Property, path)
			return 1
		}
	}
	if r.exit != 0 {
		fmt.Fprintf(os.Stderr, "replay: worker exited with %d: %s\n", r.exit, excerpt(r.stderr, 2000))
		return 2
	}
	// a replayed run that meets a listed finding says so (KNOWN-FINDING, exit 0, as the checks do)
	knownHit := false
	for i := range r.raw {
		var line struct {
			KnownHits []sim.Violation `json:"known_hits"`
			Counters  []string        `json:"counters"`
		}
		if json.Unmarshal(r.raw[i], &line) != nil {
			continue
		}
		for _, cnt := range line.Counters {
			if strings.HasPrefix(cnt, "known_finding.") {
				id := strings.SplitN(strings.TrimPrefix(cnt, "known_finding."), "=", 2)[0]
				fmt.Printf("KNOWN-FINDING: property=%s the replayed run reproduces listed finding %s\n", rf.Property, id)
				knownHit = true
			}
		}
	}
	if knownHit {
		return 0
	}
	fmt.Println("replay: the recorded violation did not reproduce on this tree")
	return 0
}

func writeEvidence(scn *sim.Scenario, prop, tier string, seed uint64, total *sim.Summary, states, nontriv map[uint64]struct{}, violations int, wall time.Duration, planned, procs int, rf *ReplayFile) {
	faults := map[string]int{}
	probes := map[string]int{}
	other := map[string]int{}
	for k, v := range total.Counters {
		switch {
		case strings.HasPrefix(k, "fault."):
			faults[k] = v
		case strings.HasPrefix(k, "probe."):
			probes[k] = v
		default:
			other[k] = v
		}
	}
	for _, p := range scn.ProbeNames {
		if _, ok := probes[p]; !ok {
			probes[p] = total.Counters[p] // a probe whose name lacks the "probe." prefix is counted under its own name
			delete(other, p)
		}
	}
	if tier == "thorough" {
		for _, p := range scn.ProbeNames {
			if probes[p] == 0 {
				fmt.Printf("NOTE: reach probe %s stayed at zero in this thorough batch\n", p)
			}
		}
	}
	for _, f := range scn.FaultKinds {
		if _, ok := faults[f]; !ok {
			faults[f] = 0
		}
	}
	samples := []interface{}{}
	for _, s := range total.Samples {
		samples = append(samples, s)
	}
	if len(samples) == 0 {
		samples = append(samples, "no run completed")
	}
	secs := wall.Seconds()
	if secs <= 0 {
		secs = 0.001
	}
	cov := map[string]interface{}{
		"evaluations":            total.Runs,
		"distinct_nontrivial":    len(nontriv),
		"rule":                   scn.Rule,
		"samples":                samples,
		"runs_planned":           planned,
		"runs_completed":         total.Runs,
		"runs_abandoned":         total.Abandoned,
		"steps":                  total.Steps,
		"runs_per_hour":          int(float64(total.Runs) / secs * 3600),
		"seeds_per_hour":         int(float64(total.Runs) / secs * 3600),
		"simulated_time_s":       float64(total.SimNanos) / 1e9,
		"distinct_states":        len(states),
		"distinct_state_measure": "hash of population / genome / network shape per step (see rule); interleavings by hash of the (task, yield tag) sequence",
		"tape_draws":             total.TapeLen,
		"faults_injected":        faults,
		"reach_probes":           probes,
		"counters":               other,
		"worker_processes":       procs,
		"real_components":        scn.RealParts,
		"stubbed_components":     scn.StubParts,
		"known_finding_hits":     len(total.KnownHits),
		"exhaustive":             false,
	}
	if rf != nil {
		cov["violation"] = map[string]interface{}{"invariant": rf.Violation.Invariant, "detail": excerpt(rf.Violation.Detail, 600), "minimised": rf.Minimised, "tape_len": len(rf.Tape)}
	}
	ev := map[string]interface{}{
		"property_id": prop,
		"tier":        tier,
		"seed":        int64(seed & 0x7fffffffffffffff),
		"level":       scn.Level,
		"coverage":    cov,
		"assumptions": scn.Assumes,
		"wall_s":      wall.Seconds(),
		"violations":  violations,
	}
	_ = os.MkdirAll(filepath.Join(verifDir, "evidence"), 0o755)
	b, _ := json.MarshalIndent(ev, "", " ")
	if err := os.WriteFile(filepath.Join(verifDir, "evidence", prop+".json"), b, 0o644); err != nil {
		die2("cannot write evidence: %v", err)
	}
}

// selftest determinism: every scenario, several seeds, each executed in fresh processes at GOMAXPROCS 1, 4 and 16;
// the summaries (counters, state hashes, tape lengths) must be identical. A divergence is exit 2: the machinery is
// broken, it is not a violation.
func selftest(args []string) int {
	if len(args) == 0 || args[0] != "determinism" {
		die2("usage: simctl selftest determinism [props...]")
	}
	props := args[1:]
	if len(props) == 0 {
		props = sim.ScenarioIds()
	}
	seed := seedFromEnv()
	n := 40
	if v := os.Getenv("VERIF_RUNS"); v != "" {
		n, _ = strconv.Atoi(v)
	}
	bad := 0
	for _, prop := range props {
		scn := sim.Scenarios[prop]
		if scn == nil {
			die2("no scenario %s", prop)
		}
		bin := buildWorker(prop+"-selftest", false, scn.Instrument)
		var ref string
		for _, gmp := range []string{"1", "4", "16", "1"} {
			os.Setenv("VERIF_WORKER_GOMAXPROCS", gmp)
			job := &sim.Job{Mode: "run", Prop: prop, Tier: "quick", Seed: seed, From: 0, To: n, Stride: 1, Known: loadKnown()}
			r := runWorker(bin, job, false, 0)
			digest := ""
			for i, m := range r.lines {
				if string(m["type"]) == `"summary"` {
					var s sim.Summary
					_ = json.Unmarshal(r.raw[i], &s)
					s.WallMs = 0
					b, _ := json.Marshal(s)
					digest = fmt.Sprintf("%x", sim.HashString(string(b)))
				}
				if string(m["type"]) == `"violation"` {
					digest += "+violation:" + string(r.raw[i])
				}
			}
			if digest == "" {
				digest = fmt.Sprintf("no-summary exit=%d %s", r.exit, excerpt(r.stderr, 300))
			}
			if ref == "" {
				ref = digest
			} else if digest != ref {
				fmt.Printf("DIVERGENCE %s GOMAXPROCS=%s: %s vs %s\n", prop, gmp, excerpt(digest, 200), excerpt(ref, 200))
				bad++
			}
		}
		os.Remove(bin)
		fmt.Printf("determinism %s: %d runs x 4 processes (GOMAXPROCS 1/4/16/1) digest %s\n", prop, n, excerpt(ref, 40))
	}
	os.Unsetenv("VERIF_WORKER_GOMAXPROCS")
	if bad > 0 {
		return 2
	}
	return 0
}
