package main

import (
	"bytes"
	"encoding/json"
	"go/ast"
	"go/parser"
	"go/printer"
	"go/token"
	"os"
	"os/exec"
	"path/filepath"
	"sync"

	"simverif/sim"
)

var (
	cliOnce sync.Once
	cliPath string
)

const cliClockSrc = `package main

import (
	"os"
	"strconv"
	"time"
)

// verifNow replaces time.Now in the scratch copy of executor.go the C17 check builds: the simulated wall clock.
func verifNow() time.Time {
	if s := os.Getenv("VERIF_FAKE_NOW"); s != "" {
		if n, err := strconv.ParseInt(s, 10, 64); err == nil {
			return time.Unix(n, 0)
		}
	}
	return time.Now()
}
`

// buildCLI builds the repository's command-line runner (package main at the root of the tree under test) with one
// change, made in a scratch copy handed to the compiler through -overlay: every time.Now() call in executor.go reads
// the simulated clock. /repo is not written to.
func buildCLI() string {
	cliOnce.Do(func() {
		base := filepath.Join(verifDir, ".build", "cli-"+filepath.Base(os.Args[0])+"-"+itoa(os.Getpid()))
		_ = os.RemoveAll(base)
		if err := os.MkdirAll(base, 0o755); err != nil {
			die2("cannot create %s: %v", base, err)
		}
		src := filepath.Join(sim.RepoDir, "executor.go")
		fset := token.NewFileSet()
		f, err := parser.ParseFile(fset, src, nil, parser.ParseComments)
		if err != nil {
			die2("cannot parse %s: %v", src, err)
		}
		ast.Inspect(f, func(n ast.Node) bool {
			call, ok := n.(*ast.CallExpr)
			if !ok {
				return true
			}
			if sel, ok := call.Fun.(*ast.SelectorExpr); ok && sel.Sel.Name == "Now" && len(call.Args) == 0 {
				if id, ok := sel.X.(*ast.Ident); ok && id.Name == "time" {
					call.Fun = ast.NewIdent("verifNow")
				}
			}
			return true
		})
		var buf bytes.Buffer
		if err := printer.Fprint(&buf, fset, f); err != nil {
			die2("cannot print the rewritten executor.go: %v", err)
		}
		rew := filepath.Join(base, "executor.go")
		clock := filepath.Join(base, "verif_now.go")
		_ = os.WriteFile(rew, buf.Bytes(), 0o644)
		_ = os.WriteFile(clock, []byte(cliClockSrc), 0o644)
		ov, _ := json.Marshal(map[string]map[string]string{"Replace": {src: rew, filepath.Join(sim.RepoDir, "verif_now_generated.go"): clock}})
		ovFile := filepath.Join(base, "overlay.json")
		_ = os.WriteFile(ovFile, ov, 0o644)
		cliPath = filepath.Join(base, "goneat-runner")
		cmd := exec.Command("go", "build", "-overlay", ovFile, "-o", cliPath, ".")
		cmd.Dir = sim.RepoDir
		cmd.Env = env()
		if out, err := cmd.CombinedOutput(); err != nil {
			// a time import left unused by the rewrite (executor.go used the package for time.Now only): keep it alive
			if bytes.Contains(out, []byte(`"time" imported and not used`)) {
				buf.WriteString("\nvar _ = time.Second\n")
				_ = os.WriteFile(rew, buf.Bytes(), 0o644)
				cmd = exec.Command("go", "build", "-overlay", ovFile, "-o", cliPath, ".")
				cmd.Dir = sim.RepoDir
				cmd.Env = env()
				out, err = cmd.CombinedOutput()
			}
			if err != nil {
				die2("cannot build the command-line runner from %s: %v\n%s", sim.RepoDir, err, out)
			}
		}
	})
	return cliPath
}

func removeCLI() {
	if cliPath != "" {
		_ = os.RemoveAll(filepath.Dir(cliPath))
	}
}

func itoa(i int) string {
	b, _ := json.Marshal(i)
	return string(b)
}
