#!/usr/bin/env python3
"""Usage: cover_report.py <dir with *.cov profiles written under VERIF_COVER_DIR> [--blocks]
Merges the Go coverage profiles the simulation workers left and reports, per library file, the share of statements the
simulation executed and the functions it never entered (reach measurement; not a verdict of any property)."""
import glob, re, subprocess, sys, os, collections
d = sys.argv[1]
cov = collections.defaultdict(int); stm = {}
for f in glob.glob(os.path.join(d, "*.cov")):
    for l in open(f):
        if l.startswith("mode:"): continue
        m = re.match(r"(.+):(\d+)\.(\d+),(\d+)\.(\d+) (\d+) (\d+)", l)
        if not m: continue
        k = (m.group(1), int(m.group(2)), int(m.group(3)), int(m.group(4)), int(m.group(5)))
        stm[k] = int(m.group(6)); cov[k] += int(m.group(7))
per = collections.defaultdict(lambda: [0, 0]); unc = collections.defaultdict(list)
for k, n in stm.items():
    if "verif_" in k[0]: continue
    per[k[0]][1] += n
    if cov[k] > 0: per[k[0]][0] += n
    else: unc[k[0]].append(k)
tot = [sum(v[0] for v in per.values()), sum(v[1] for v in per.values())]
print("library statements executed under the simulation: %d of %d (%.1f%%)" % (tot[0], tot[1], 100.0 * tot[0] / max(1, tot[1])))
for f in sorted(per):
    c, t = per[f]
    print("%6.1f%%  %5d/%-5d %s" % (100.0 * c / max(1, t), c, t, f.replace("github.com/yaricom/goNEAT/v4/", "")))
if "--blocks" in sys.argv:
    for f in sorted(unc):
        print("==", f.replace("github.com/yaricom/goNEAT/v4/", ""))
        for k in sorted(unc[f]): print("   %d.%d-%d.%d (%d stmts)" % (k[1], k[2], k[3], k[4], stm[k]))
