#!/usr/bin/env python3
"""Writes /verif/MANIFEST.json from the table below (run after adding or changing a check)."""
import json, os, subprocess

ROOT = os.path.dirname(os.path.dirname(os.path.abspath(__file__)))

TECH = "deterministic simulation with fault injection: seeded choice tape drives the world, the library RNG, the faults and (parallel executor) the goroutine schedule; reference-model oracle after every step; tape shrinking + replay"

# id -> (level category, level text, level note, technique detail, design ref)
CHECKS = {}

def add(pid, text, note, tech, ref, category="exploration"):
    CHECKS[pid] = dict(category=category, text=text, note=note, tech=tech, ref=ref)

NOT_APPLICABLE = {
 "C18": "scalar activation functions and a static name/type table are pure functions of their argument: no schedule, clock, I/O stream, fault, interleaving or history exists for a simulator to own; generating inputs for them would be property-based testing, a different technique family (DESIGN.md section 0 and 5.18)",
}

def pending(pid, why="check under construction in this session (not yet claimed)"):
    NOT_APPLICABLE[pid] = why

exec(open(os.path.join(ROOT, "tools", "checks_table.py")).read())

def hook_commits():
    out = subprocess.run(["git", "-C", "/repo", "log", "--format=%H %s"], capture_output=True, text=True).stdout
    return [l.split()[0] for l in out.splitlines() if " verif hooks:" in " " + l.split(" ", 1)[1] or l.split(" ", 1)[1].startswith("verif hooks")]

manifest = {
 "version": 1,
 "setup_cmd": "./checks/run.sh setup",
 "hooks": {
  "guard": "verif (Go build tag)",
  "enable": "go test -c -tags verif (the worker and the orchestrator are built by checks/run.sh against /repo's working tree with -tags verif; -race in addition for C16)",
  "baseline_off_cmd": "cd /repo && GOFLAGS=-mod=mod go test -json -vet=off -count=1 -timeout 25m ./...",
  "source_commits": hook_commits(),
  "add_only": True,
 },
 "engines": [
  {"name": "simctl + worker", "path": "sim/", "serves_properties": sorted(CHECKS.keys()),
   "kind_free_text": "own deterministic simulator in Go: splitmix choice tape (one integer per run), world builder (option swarm, start genomes, fitness landscapes), seams (math/rand seed, simulated disk, context cancellation, evaluator/observer stubs, testing/synctest fake clock, //go:norace cooperative goroutine scheduler + Go race detector), reference-model oracles, tape shrinker, replay files"},
 ],
 "checks": [],
 "not_applicable": [{"property_id": k, "reason": v} for k, v in sorted(NOT_APPLICABLE.items()) if k not in CHECKS],
 "notes": "Every check: ./checks/run.sh <id> quick|thorough honours VERIF_SEED, rebuilds from /repo, rewrites evidence/<id>.json, prints KNOWN-FINDING lines for open entries of known_findings.json and VIOLATION lines with a minimised replay file otherwise. ./checks/run.sh replay <file> reproduces a replay file; ./checks/run.sh selftest determinism proves replayability.",
}
for pid in sorted(CHECKS):
    c = CHECKS[pid]
    manifest["checks"].append({
     "property_id": pid,
     "quick_cmd": "./checks/run.sh %s quick" % pid,
     "thorough_cmd": "./checks/run.sh %s thorough" % pid,
     "evidence_file": "evidence/%s.json" % pid,
     "replay_cmd_template": "./checks/run.sh replay {path}",
     "engine": "simctl + worker",
     "level_claimed": {"category": c["category"], "text": c["text"], "design_ref": c["ref"]},
     "level_note": c["note"],
     "technique": c["tech"],
    })
json.dump(manifest, open(os.path.join(ROOT, "MANIFEST.json"), "w"), indent=1)
print("wrote MANIFEST.json with", len(manifest["checks"]), "checks,", len(manifest["not_applicable"]), "not applicable")
