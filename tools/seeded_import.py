#!/usr/bin/env python3
"""Imports confirmed sub-agent changes from /tmp/mut/<P>/m<k> into /verif/seeded/<P>-m<k>/ (patch.diff, demo_test.go,
notes.md, meta.json). A change is kept only when confirm.json says: applies, builds, unedited suite passes with it,
demonstration fails with it and passes without it (or an override with a reason is given in OVERRIDES)."""
import glob, json, os, re, shutil
ROOT = os.path.dirname(os.path.dirname(os.path.abspath(__file__)))
OVERRIDES = json.load(open(os.path.join(ROOT, "tools", "seeded_overrides.json"))) if os.path.exists(os.path.join(ROOT, "tools", "seeded_overrides.json")) else {}
kept, dropped = [], []
import sys
# usage: seeded_import.py <base dir> <prefix>   e.g. /tmp/mut5 w5-   (wave 1: /tmp/mut "" ; later waves w2- .. w5-)
BASE, PREFIX = (sys.argv[1].rstrip("/"), sys.argv[2]) if len(sys.argv) > 2 else ("/tmp/mut5", "w5-")
for d in sorted(glob.glob(BASE + "/C*/m[0-9]*")):
    if not os.path.isdir(d):
        continue
    prop, k = d.split("/")[-2], d.split("/")[-1]
    name = "%s%s-%s" % (PREFIX, prop, k)
    need = [os.path.join(d, f) for f in ("patch.diff", "demo_test.go", "notes.md", "confirm.json")]
    if not all(os.path.exists(f) for f in need):
        dropped.append((name, "incomplete")); continue
    cf = json.load(open(os.path.join(d, "confirm.json")))
    ok = cf.get("applies") == "yes" and cf.get("builds") == "0" and cf.get("suite_exit") == "0" and cf.get("demo_with_patch_exit") not in ("0", None) and cf.get("demo_without_patch_exit") == "0"
    ov = OVERRIDES.get(name, {})
    if ov.get("drop"):
        dropped.append((name, "dropped: " + ov.get("note", ""))); continue
    if not ok and not ov.get("keep"):
        dropped.append((name, "not confirmed: %s" % cf)); continue
    out = os.path.join(ROOT, "seeded", name)
    os.makedirs(out, exist_ok=True)
    for f in ("patch.diff", "demo_test.go", "notes.md"):
        shutil.copy(os.path.join(d, f), os.path.join(out, f))
    notes = open(os.path.join(d, "notes.md")).read()
    lines = [l.strip() for l in notes.splitlines() if l.strip()]
    what = re.sub(r"^[#\s*]+", "", lines[0]).strip("* ") if lines else ""
    m = re.search(r"(?is)\*{0,2}(need[^\n]*?)\*{0,2}\s*[:\n](.*?)(\n\s*\n|\n\*\*|\n#|\Z)", notes)
    needs = re.sub(r"\s+", " ", (m.group(1) + ": " + m.group(2)) if m else "see notes.md").strip()[:700]
    meta = {"id": name, "breaks": ov.get("breaks", [prop]), "what": what[:300], "needs": needs,
            "author": "fresh sub-agent given only the text of property %s and its own scratch worktree of /repo" % prop,
            "confirmed": {"by": "tools/mutant_confirm.sh in a scratch worktree outside /repo and /verif", "patch_applies": cf.get("applies"), "builds_exit": cf.get("builds"),
                          "unedited_suite_exit_with_change": cf.get("suite_exit"), "demo_exit_with_change": cf.get("demo_with_patch_exit"),
                          "demo_exit_without_change": cf.get("demo_without_patch_exit"), "demo_dir": cf.get("demo_dir"), "demo_tests": cf.get("demo_tests")},
            "ran": "tools/mutant_eval.py: patch applied to a scratch worktree of /repo HEAD (or /repo itself), every check's quick tier run against it, patch undone",
            "note": ov.get("note", "")}
    json.dump(meta, open(os.path.join(out, "meta.json"), "w"), indent=1)
    for f in ("eval.json", "eval_thorough.json", "eval_own.json"):
        if os.path.exists(os.path.join(d, f)):
            shutil.copy(os.path.join(d, f), os.path.join(out, f))
    kept.append(name)
print("kept", len(kept), kept)
print("dropped", dropped)
