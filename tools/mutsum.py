#!/usr/bin/env python3
import json,sys,os,glob
for d in sorted(glob.glob((sys.argv[1] if len(sys.argv)>1 else '/tmp/mut')+'/C*/m[0-9]*')):
    if not os.path.exists(d+'/eval.json'): 
        print(d.split('/',3)[3], 'pending'); continue
    r=json.load(open(d+'/eval.json'))['results']
    c=[k for k,v in r.items() if v['exit']==1]; bad=[k for k,v in r.items() if v['exit'] not in (0,1)]
    cf=json.load(open(d+'/confirm.json')) if os.path.exists(d+'/confirm.json') else {}
    own=d.split('/')[3]
    flag='' if own in c else 'MISSED'
    print(d.split('/',3)[3], 'n=%d'%len(r), 'caught:',','.join(c) or '-', ('INFRA:'+','.join(bad)) if bad else '', flag, 'confirm:', ' '.join('%s'%(cf[k]) for k in ['suite_exit','demo_with_patch_exit','demo_without_patch_exit'] if k in cf))
