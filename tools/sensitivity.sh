#!/bin/bash
# Usage: tools/sensitivity.sh [nslots] : for every seeded change under /verif/seeded, applies patch.diff to a scratch
# worktree of /repo HEAD, runs the quick tier of the check(s) named in meta.json "breaks" from a scratch copy of /verif
# pointing at that worktree, and reports whether a VIOLATION was printed. Leaves /repo untouched; removes its scratch
# copies. Writes seeded/<id>/sens.json.
set -u
N=${1:-6}
export GOFLAGS=-mod=mod GOPROXY=off GOSUMDB=off GOTOOLCHAIN=local
ls -d /verif/seeded/*/ | sed 's#/$##' | while read d; do
  # SENS_ONLY_NEW=1: only the entries that have no result yet
  if [ "${SENS_ONLY_NEW:-}" = "1" ] && [ -f $d/sens.json ]; then continue; fi
  echo $d
done > /tmp/sens_all.txt
run_slot() {
  s=$1; WT=/tmp/wt/sens$s; V=/tmp/sensverif$s
  git -C /repo worktree add --detach $WT HEAD >/dev/null 2>&1
  rm -rf $V; mkdir -p $V; rsync -a --exclude .git --exclude .build --exclude replays --exclude seeded /verif/ $V/
  sed -i "s#=> /repo#=> $WT#" $V/sim/go.mod
  awk -v s=$s -v n=$N 'NR%n==s' /tmp/sens_all.txt | while read M; do
    git -C $WT checkout -q -- . ; git -C $WT clean -fdq
    ids=$(python3 -c "import json;print(' '.join(json.load(open('$M/meta.json'))['breaks']))")
    MUT_OUT=sens_eval.json MUT_REPO=$WT MUT_VERIF=$V python3 /verif/tools/mutant_eval.py $M $ids > $M/sens.log 2>&1
    python3 - $M <<'PY'
import json,sys
m=sys.argv[1]; r=json.load(open(m+'/sens_eval.json'))['results']
ok=any(v['exit']==1 for v in r.values())
import os
json.dump({'checks':{k:v['exit'] for k,v in r.items()},'caught':ok},open(m+'/'+os.environ.get('SENS_OUT','sens.json'),'w'))
print(('CAUGHT ' if ok else 'MISSED ')+m.split('/')[-1], {k:v['exit'] for k,v in r.items()})
PY
  done
  git -C /repo worktree remove --force $WT >/dev/null 2>&1; rm -rf $V
}
for s in $(seq 0 $((N-1))); do run_slot $s & done
wait
