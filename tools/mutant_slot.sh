#!/bin/bash
# Usage: mutant_slot.sh <slot> <mutant dir>... : evaluates (quick tier, all checks) and confirms each mutant in scratch
# copies /tmp/wt/slot<slot> (worktree of /repo HEAD) and /tmp/evalverif<slot> (copy of /verif pointing at it).
set -u
SLOT=$1; shift
WT=/tmp/wt/slot$SLOT; V=/tmp/evalverif$SLOT
[ -d $WT ] || git -C /repo worktree add --detach $WT HEAD >/dev/null 2>&1
git -C $WT checkout -q -- . ; git -C $WT clean -fdq; git -C $WT checkout -q --detach $(git -C /repo rev-parse HEAD)
rm -rf $V; mkdir -p $V; rsync -a --exclude .git --exclude .build --exclude replays --exclude seeded /verif/ $V/
sed -i "s#=> /repo#=> $WT#" $V/sim/go.mod
for M in "$@"; do
  git -C $WT checkout -q -- . ; git -C $WT clean -fdq
  echo "=== $M"
  OWN=$(basename $(dirname $M))
  if [ "${MUT_MODE:-full}" = "own" ]; then
    [ -f $M/eval_own.json ] || MUT_OUT=eval_own.json MUT_REPO=$WT MUT_VERIF=$V python3 /verif/tools/mutant_eval.py $M $OWN 2>&1 | tail -2
  elif [ "${MUT_MODE:-full}" = "ownconfirm" ]; then
    [ -f $M/eval_own.json ] || MUT_OUT=eval_own.json MUT_REPO=$WT MUT_VERIF=$V python3 /verif/tools/mutant_eval.py $M $OWN 2>&1 | tail -2
    git -C $WT checkout -q -- . ; git -C $WT clean -fdq
    [ -f $M/confirm.json ] || /verif/tools/mutant_confirm.sh $M $WT 2>&1 | tail -1
  elif [ "${MUT_MODE:-full}" = "confirm" ]; then
    [ -f $M/confirm.json ] || /verif/tools/mutant_confirm.sh $M $WT 2>&1 | tail -1
  else
    [ -f $M/eval.json ] || MUT_REPO=$WT MUT_VERIF=$V python3 /verif/tools/mutant_eval.py $M 2>&1 | tail -2
    [ -f $M/confirm.json ] || /verif/tools/mutant_confirm.sh $M $WT 2>&1 | tail -1
  fi
done
