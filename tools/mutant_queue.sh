#!/bin/bash
# Usage: mutant_queue.sh <nslots> [base dir, default /tmp/mut] : evaluates + confirms every complete mutant under /tmp/mut that has no eval.json or confirm.json yet
N=${1:-4}
BASE=${2:-/tmp/mut}
TAG=$(basename $BASE)
ls -d $BASE/C*/m[0-9]* | while read d; do
  [ -f $d/patch.diff ] && [ -f $d/demo_test.go ] && [ -f $d/notes.md ] || continue
  case "${MUT_MODE:-full}" in
    own) [ -f $d/eval_own.json ] && continue ;;
    confirm) [ -f $d/confirm.json ] && continue ;;
    ownconfirm) [ -f $d/eval_own.json ] && [ -f $d/confirm.json ] && continue ;;
    *) [ -f $d/eval.json ] && [ -f $d/confirm.json ] && continue ;;
  esac
  echo $d
done > /tmp/mutqueue.txt
wc -l /tmp/mutqueue.txt
for s in $(seq 0 $((N-1))); do
  awk -v s=$s -v n=$N 'NR%n==s' /tmp/mutqueue.txt | xargs -r nohup /verif/tools/mutant_slot.sh ${TAG}q$s > /tmp/slot${TAG}q$s.log 2>&1 &
done
