#!/usr/bin/env python3
"""Usage: mutant_eval.py <mutant dir with patch.diff> [check ids...]
Applies the patch to /repo, runs the quick tier of the given checks (default: all claimed), undoes the patch, and
writes <mutant dir>/eval.json (which checks reported a violation, with the invariant line). /repo must be clean."""
import json, os, subprocess, sys, time
m = sys.argv[1]
# MUT_REPO / MUT_VERIF: evaluate against a scratch worktree of /repo with a scratch copy of /verif whose sim/go.mod points
# at that worktree (parallel evaluation without touching /repo); default: /repo and /verif themselves
REPO = os.environ.get("MUT_REPO", "/repo")
VERIF = os.environ.get("MUT_VERIF", "/verif")
ids = sys.argv[2:]
tier = os.environ.get("MUT_TIER", "quick")
if not ids:
    ids = [c["property_id"] for c in json.load(open("/verif/MANIFEST.json"))["checks"]]
st = subprocess.run(["git", "-C", REPO, "status", "--porcelain"], capture_output=True, text=True).stdout.strip()
if st:
    sys.exit(REPO + " is not clean: " + st)
r = subprocess.run(["git", "-C", REPO, "apply", os.path.join(m, "patch.diff")], capture_output=True, text=True)
if r.returncode:
    sys.exit("patch does not apply: " + r.stderr)
res = {}
try:
    for pid in ids:
        t0 = time.time()
        p = subprocess.run(["./checks/run.sh", pid, tier], cwd=VERIF, env=dict(os.environ, VERIF_REPO=REPO), capture_output=True, text=True)
        viol = [l for l in p.stdout.splitlines() if l.startswith("violation:")]
        res[pid] = {"exit": p.returncode, "wall_s": round(time.time() - t0, 1), "violation": (viol[0][:400] if viol else ""),
                    "stderr": p.stderr[-600:] if p.returncode not in (0, 1) else ""}
        print(pid, p.returncode, res[pid]["wall_s"], res[pid]["violation"][:160], flush=True)
finally:
    subprocess.run(["git", "-C", REPO, "checkout", "--", "."])
    subprocess.run(["git", "-C", REPO, "clean", "-fdq"])
json.dump({"tier": tier, "results": res}, open(os.path.join(m, os.environ.get("MUT_OUT", "eval.json" if tier == "quick" else "eval_thorough.json")), "w"), indent=1)
caught = [k for k, v in res.items() if v["exit"] == 1]
print("CAUGHT BY:", caught, "| infra trouble:", [k for k, v in res.items() if v["exit"] not in (0, 1)])
