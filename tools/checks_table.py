# Table of claimed checks (executed by gen_manifest.py). Properties without an entry are listed as not applicable.
SAMPLING = " Sampling, not proof: a clean batch says no counterexample exists among the explored histories."

add("C01",
    "Seeded search over operator and epoch histories: every genome produced by construction, by each of the 14 operators (applied through the guarded export file against the real population or the reference registry, results re-entering the operand pool) and by every epoch turnover of the simulated world is checked against the full well-formedness predicate and expressed with Genesis." + SAMPLING,
    "Trusts the well-formedness predicate in sim/sim/canon.go; start genomes are hand-built, shipped or NewPopulationRandom ones with at least one gene (gene-less random genomes are skipped as outside the precondition); the gene-less single-point child of unrelated random parents is known finding F9.",
    TECH + "; oracle = well-formedness predicate after every operator call and every epoch", "DESIGN.md 5.1")
add("C02",
    "Seeded search over simulated worlds: after every NextEpoch of every run the partition/size/id/age oracle is evaluated against the real population (both executors; the parallel one under the tape-driven scheduler)." + SAMPLING,
    "Trusts the harness oracle (sim/sim/prop_c02.go) and that the option swarm covers the documented ranges; fitness is finite and non-negative by construction; worlds whose constructor yields a gene-less random genome are skipped as outside the precondition.",
    TECH + "; oracle = species-partition ledger across the whole run", "DESIGN.md 5.2")
add("C03",
    "Seeded search over whole population lives: a ledger innovation number -> (source, target, recurrence) and node id -> role over every gene of every organism that ever lived in the run, freshness of numbers per generation, same-generation reuse under the sequential executor (observed through twin mutations against the live registry), and the forgetting of the innovation record at the end of the generation." + SAMPLING,
    "Trusts the ledger in sim/sim/ledger.go and the read-only getters of the guarded export file; worlds that end in an epoch error are abandoned (that is C02's verdict).",
    TECH + "; oracle = cross-generation innovation ledger", "DESIGN.md 5.3")
add("C04",
    "Seeded search over parent pairs taken from living simulated populations (common ancestry, interspecies pairs, one-sided disabled genes, all fitness orderings with ties): every child of the three crossovers is compared with the alignment rules computed by set arithmetic on innovation numbers; the crossover's coin flips sit behind the RNG seam so a failing mating replays from the tape." + SAMPLING,
    "Trusts the set-based alignment reference in sim/sim/prop_c04.go; the statement leaves the one-disabled-of-two case and the full fitness tie with equal gene counts open, and the oracle accepts every allowed outcome there.",
    TECH + "; oracle = set-based alignment reference per mating", "DESIGN.md 5.4")
add("C05",
    "Seeded search over mutation histories on evolved genomes: a canonical before/after diff of every mutator call, judged against the documented effect (add-node, add-link, connect-sensors, weight/trait/toggle/re-enable), with the real population, an empty stub registry and stub registries preloaded with matching and near-miss innovation records." + SAMPLING,
    "Trusts the diff oracle in sim/sim/prop_c05.go; what the statement does not constrain (the genome after a failed add-node) is recorded, not judged.",
    TECH + "; oracle = canonical before/after diff against the operator contract", "DESIGN.md 5.5")
add("C06",
    "Seeded search over mutate-after-copy histories: duplicates of evolved, hand-built and modular genomes are compared bit for bit (except the id), searched for any shared pointer or backing array, and then either side is mutated by a drawn operator sequence while the other's canonical dump must stay identical; spawned populations are compared with their start genome." + SAMPLING,
    "Trusts the canonical dump (floats as bit patterns) and the pointer walk in sim/sim/prop_c06.go.",
    TECH + "; oracle = bit-exact canonical dump + aliasing walk", "DESIGN.md 5.6")
add("C07",
    "In-simulation monitor: pairs of genomes reached by simulated evolution (siblings, ancestors of earlier generations, duplicates, unrelated random genomes, synthetic prefixes and interleavings) under the swarm's coefficient sets; both methods are compared with a set-based reference distance, with each other, for symmetry, zero on self/duplicate, NaN and sign. The simulator is the state generator here; there is no schedule or fault axis in this statement." + SAMPLING,
    "Trusts the set-based reference in sim/sim/prop_c07.go; relative tolerance 1e-9 for summation order.",
    TECH + "; oracle = set-based reference distance on every sampled pair", "DESIGN.md 5.7")
add("C08",
    "Seeded search over arrival orders: at every speciate.begin observation point (construction, read-back, every turnover, direct calls with tape-permuted batches) the harness records the batch in arrival order and the representatives at that instant and afterwards replays the assignment step by step from the actual state: the chosen species must be a nearest one below the threshold, or a fresh one with a new id exactly when none is below." + SAMPLING,
    "Trusts the stepwise oracle in sim/sim/prop_c08.go and the reference distance of C07 (a wrong distance that changes an assignment is also a C08 violation, as the statement says); ties and |d - threshold| <= 1e-9 accept either outcome.",
    TECH + "; oracle = stepwise replay of the batch against the reference distance", "DESIGN.md 5.8")
add("C09",
    "Seeded search over fitness landscapes x species ages x option swarm: a pre-epoch snapshot, the epoch.prepared observation point and the post-epoch values give each organism's expected offspring, each species' quota, the parents left after culling and the babies produced; they are compared with the shared-fitness apportionment computed independently (carry in species order, make-up offspring, totals after stealing and delta coding)." + SAMPLING,
    "Trusts the apportionment reference in sim/sim/prop_c09.go; landscapes have at least one positive value; the penalty/boost constants are not mirrored (only uniformity within a species and sharing by size are required).",
    TECH + "; oracle = independent apportionment reference at the epoch.prepared point", "DESIGN.md 5.9")
add("C10",
    "Seeded search over epoch histories long enough for champions to carry disabled, recurrent and re-enabled genes: for every species whose final quota exceeds five the next generation must contain a genome whose canonical dump (minus id) equals the pre-epoch dump of that species' fittest organism; with and without stolen babies and delta coding." + SAMPLING,
    "Trusts the canonical dump and the quota read from the old species object; fitness values are distinct and positive by construction of the landscape.",
    TECH + "; oracle = pre-epoch champion dump searched in the next generation", "DESIGN.md 5.10")
add("C11",
    "Seeded search over mutation histories between expression and use: a reference expression of every genome (nodes, enabled genes, modules) is compared with Genesis and with the graph view over all ordered pairs of present and absent ids; after every epoch and every operator step each organism's cached phenotype must express its current genome." + SAMPLING,
    "Trusts the reference expression in sim/sim/netref.go.",
    TECH + "; oracle = reference expression vs Genesis and the cached phenotype after every step", "DESIGN.md 5.11")
add("C12",
    "In-simulation monitor: every feed-forward phenotype reached by simulated evolution (activation swarm, 0-2 bias nodes, skip connections) is evaluated on random input vectors by a topological reference evaluator and compared (1e-9) with the standard solver and the fast solver's forward, recursive and relaxation modes at L..L+3 steps. The simulator is the state generator here; there is no schedule or fault axis in this statement." + SAMPLING,
    "Trusts the topological evaluator in sim/sim/netref.go and the library's scalar activation functions as primitives; networks with a neuron unreachable from a sensor are skipped and counted.",
    TECH + "; oracle = topological reference evaluator", "DESIGN.md 5.12")
add("C13",
    "Seeded search over activation histories with Flush as a restart that keeps only durable state: after a drawn history (loads, activations including aborted ones, forward/recursive/relax, depth queries including capped ones) and a Flush, a drawn sequence must produce bit-identical outputs and errors to the same sequence on a freshly built instance; both solvers, feed-forward, recurrent and self-loop topologies." + SAMPLING,
    "Trusts bit equality of float64 outputs between two instances running the same code in the same order.",
    TECH + "; oracle = twin fresh instance, bit-exact", "DESIGN.md 5.13")
add("C14",
    "Seeded search over depth-query histories (capped, uncapped, interleaved with activations, the cap-exceeded error as the injected fault): DAG answers equal a DP longest path, cyclic ones terminate within [0, nodes], capped ones follow the cap rule, and every answer equals the answer on a fresh network; a stack overflow or hang of the worker inside a C14 step is reported as non-termination." + SAMPLING,
    "Trusts the DP longest-path reference in sim/sim/netref.go; networks are kept at <= 14 nodes so that the library's own exponential search stays cheap.",
    TECH + "; oracle = DP longest path + fresh-network twin; worker crash/hang = non-termination", "DESIGN.md 5.14")
add("C16",
    "Seeded search over goroutine interleavings of the parallel executor: real goroutines are parked and released one at a time by a tape-driven scheduler whose own state is invisible to the race detector (//go:norace, no channels/atomics); the worker is built with -race against a scratch copy of the tree in which go/ast instrumentation puts a yield point before every statement of every function that touches shared state (atomics, locks, channels, package-level variables) and turns the parent's own blocking operations into scheduling points, so that an early return that leaves goroutines behind is reached; the context is cancelled inside reproduction in a share of the runs; after every epoch the C01/C02/C03 oracles run. A race report, goroutines outliving the call, or an oracle failure is a violation with the tape (world + schedule + fault) as replay." + SAMPLING,
    "Trusts the Go race detector for accesses that are unordered by the library's own synchronisation (two accesses that a lock or atomic of the library happens to order are judged by the oracles only); interleavings are explored at statement granularity in instrumented functions and at the hand-placed hook points elsewhere; tearing inside one statement is covered only through the race detector.",
    TECH + "; oracle = Go race detector under the tape-driven scheduler + population oracles", "DESIGN.md 5.16", )
add("C19",
    "Seeded search over simulated experiments (complete, solved early, cut short by an injected fault): every Experiment/Trial aggregate is recomputed from the recorded generations by a reference and every Floats accessor is evaluated on every recorded series, on tape-chosen permutations and prefixes including the empty one, against textbook definitions; panics are violations." + SAMPLING,
    "Trusts the textbook statistics in sim/sim/prop_c19.go (empirical quantile x_(ceil(np))).",
    TECH + "; oracle = textbook statistics and aggregates recomputed from the recorded generations", "DESIGN.md 5.19")
add("C20",
    "Fault enumeration over the trial/generation protocol: the real Experiment.Execute runs with a scripted evaluator and observer writing one sequence-numbered log under a fault script (evaluator error; cancellation at evaluator entry, by a timer at a simulated instant, at exit, inside each observer callback, at epoch.prepared, at the k-th offspring, at the speciation of the babies; or a context deadline that expires at a simulated instant in the middle of an evaluation); the log must be a prefix of the protocol's ideal sequence, complete without fault, nothing after the stop, the injected error returned. A share of the runs sweeps every single-fault point of its shape (complete for that shape); multi-fault scripts are sampled.",
    "Trusts the protocol state machine in sim/sim/prop_c20.go; after a cancellation the observer may still learn that the next trial started (accepted as a prefix of the ideal sequence).",
    TECH + "; oracle = protocol state machine over the recorded event history; single-fault sweep per shape", "DESIGN.md 5.20", category="fault_enumeration")

add("C15",
    "Fault enumeration over the simulated disk: objects of simulated worlds and simulated experiments (evolved float64 weights plus extreme finite values, disabled / recurrent genes, nil traits, activation swarm, modules) are written and read back through in-memory readers/writers. Clean configuration: every legal reader fragmentation (1-byte, short, data together with EOF) must read back equal. Fault configurations, kept separate: the writer fails at byte k and stays failed / fails for the one write call that reaches byte k and recovers / the reader fails after k bytes; the call must return an error, a nil error is an acknowledgement and then the result must be equal. A share of the runs sweeps k over every byte of small objects and around every 4096-byte buffer boundary of large ones.",
    "Trusts the canonical genome dump (floats as bit patterns) and the experiment snapshot in sim/sim/prop_c15.go; weights, parameters and fitness are finite; generation records carry a champion; Trial.Duration and the champion's species are not part of the saved form; nothing is demanded of reads of torn data whose write reported the error.",
    TECH + "; oracle = bit-exact canonical comparison after each round trip; write/read error acknowledgement rule under injected device faults", "DESIGN.md 5.15", category="fault_enumeration")

add("C17",
    "Seeded search over environments: the same scenario (one tape slice = start genome, options, library seed, deterministic fitness; worlds with the sequential executor and sequential Experiment.Execute runs) is executed as a reference and again immediately, after unrelated work and heap churn, under other GOMAXPROCS / GC settings, inside a fake-clock bubble with jumps of hours to years between epochs, in a fresh child process, and from the very start genome object an earlier execution already used; canonical population dumps are compared bit for bit after construction and after every epoch." + SAMPLING,
    "Trusts the canonical population dump in sim/sim/prop_c17.go; the harness module declares go 1.23 so that rand.Seed seeds the global source under the go1.26 toolchain; a panic of the library is part of the outcome and must recur at the same step.",
    TECH + "; oracle = bit-exact comparison of canonical population dumps between a reference execution and perturbed re-executions (clock, heap, processors, prior work, fresh process)", "DESIGN.md 5.17")
