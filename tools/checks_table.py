# Table of claimed checks (executed by gen_manifest.py). Properties without an entry are listed as not applicable / pending.
add("C02",
    "Seeded search over simulated worlds: after every NextEpoch of every run the partition/size/id/age oracle is evaluated against the real population (both executors; the parallel one under the tape-driven scheduler). Sampling, not proof: a clean batch says no counterexample exists among the explored histories.",
    "Trusts the harness oracle (sim/sim/prop_c02.go) and that the option swarm covers the documented ranges; fitness is finite and non-negative by construction; worlds whose constructor yields a gene-less random genome are skipped as outside the precondition.",
    TECH + "; oracle = species-partition ledger across the whole run", "DESIGN.md 5.2")
for p in ["C01","C03","C04","C05","C06","C07","C08","C09","C10","C11","C12","C13","C14","C15","C16","C17","C19","C20"]:
    if p not in CHECKS:
        pending(p)
