#!/bin/bash
# Usage: mutant_confirm.sh <mutant dir with patch.diff + demo_test.go> <scratch worktree of /repo (clean)>
# Confirms in the scratch worktree: patch applies and builds; the unedited suite passes with it; the demonstration fails
# with it and passes without it. Writes <mutant dir>/confirm.json. Never touches /repo.
set -u
M="$1"; WT="$2"
export GOFLAGS=-mod=mod GOPROXY=off GOSUMDB=off GOTOOLCHAIN=local
cd "$WT" || exit 2
git checkout -q -- . && git clean -fdq
res() { python3 - "$M" "$@" <<'PY'
import json,sys
m=sys.argv[1]; kv=dict(a.split('=',1) for a in sys.argv[2:])
json.dump(kv,open(m+'/confirm.json','w'),indent=1); print(kv)
PY
}
# where does the demo go? first line comment names a directory; fall back to grepping the package clause
DEMO="$M/demo_test.go"
# a demonstration that needs the race detector says so in the first lines of its notes
if [ -z "${DEMO_RACE:-}" ] && head -3 "$M/notes.md" 2>/dev/null | grep -q '\bRACE\b'; then DEMO_RACE=1; fi
[ -f "$DEMO" ] || { res applies=unknown reason=no-demo; exit 1; }
DIR=$(head -5 "$DEMO" | grep -oE '(neat|experiment|examples)[A-Za-z0-9_/]*' | head -1)
if [ -z "$DIR" ] || [ ! -d "$WT/$DIR" ]; then
  PKG=$(grep -m1 '^package ' "$DEMO" | awk '{print $2}')
  case "$PKG" in genetics) DIR=neat/genetics;; network) DIR=neat/network;; math) DIR=neat/math;; neat) DIR=neat;; experiment) DIR=experiment;; utils) DIR=neat/utils;; main) DIR=.;; *) DIR=neat/genetics;; esac
fi
DIR=${DIR%/}
RUN=$(grep -m1 -oE 'func (Test[A-Za-z0-9_]+)' "$DEMO" | awk '{print $2}')
ALLTESTS=$(grep -oE 'func (Test[A-Za-z0-9_]+)' "$DEMO" | awk '{print $2}' | paste -sd'|')
cp "$DEMO" "$WT/$DIR/zz_demo_confirm_test.go"
# without the patch: demo must pass
go test ${DEMO_RACE:+-race} -vet=off -count=1 -timeout 20m -run "^($ALLTESTS)\$" "./$DIR/" > "$M/confirm_demo_without.log" 2>&1; W=$?
if ! git apply "$M/patch.diff" 2> "$M/confirm_apply.log"; then res applies=no; git checkout -q -- .; git clean -fdq; exit 1; fi
go test ${DEMO_RACE:+-race} -vet=off -count=1 -timeout 20m -run "^($ALLTESTS)\$" "./$DIR/" > "$M/confirm_demo_with.log" 2>&1; D=$?
rm -f "$WT/$DIR/zz_demo_confirm_test.go"
go build ./... > "$M/confirm_build.log" 2>&1; B=$?
go test -vet=off -count=1 -timeout 25m ./... > "$M/confirm_suite.log" 2>&1; S=$?
git checkout -q -- . && git clean -fdq
res applies=yes builds=$B suite_exit=$S demo_with_patch_exit=$D demo_without_patch_exit=$W demo_dir=$DIR demo_tests="$ALLTESTS"
