#!/bin/bash
# Usage: checks/run.sh <property-id> <quick|thorough>   |   checks/run.sh replay <file>   |   checks/run.sh setup
# Rebuilds the orchestrator and the simulation worker from /repo's current working tree (build tag "verif"), runs the
# seeded simulation batch of the property, rewrites evidence/<id>.json.
# Exit 0: property held on everything explored. Exit 1: "VIOLATION property=<id> replay=<path>". Exit 2: build or
# infrastructure trouble (never a verdict).
set -u
VERIF_DIR="$(cd "$(dirname "${BASH_SOURCE[0]}")/.." && pwd)"
export VERIF_DIR
export GOFLAGS=-mod=mod GOPROXY=off GOSUMDB=off GOTOOLCHAIN=local GONOSUMDB='*'
CALLER_PWD="$PWD"
cd "$VERIF_DIR/sim" || exit 2
GO=go1.26.8
command -v $GO >/dev/null 2>&1 || GO=go
mkdir -p "$VERIF_DIR/.build"
cp -f "${VERIF_REPO:-/repo}/go.sum" "$VERIF_DIR/sim/go.sum" 2>/dev/null
if ! $GO build -tags verif -o "$VERIF_DIR/.build/simctl.$$" ./cmd/simctl 2> "$VERIF_DIR/.build/simctl-build.$$.log"; then
  echo "checks/run.sh: cannot build the orchestrator against ${VERIF_REPO:-/repo} (exit 2):" >&2
  cat "$VERIF_DIR/.build/simctl-build.$$.log" >&2
  rm -f "$VERIF_DIR/.build/simctl-build.$$.log" "$VERIF_DIR/.build/simctl.$$"
  exit 2
fi
rm -f "$VERIF_DIR/.build/simctl-build.$$.log"
trap 'rm -f "$VERIF_DIR/.build/simctl.$$"' EXIT
case "${1:-}" in
  setup) exit 0 ;;
  replay)
    RP="${2:-}"
    case "$RP" in /*) ;; *) if [ -e "$CALLER_PWD/$RP" ]; then RP="$CALLER_PWD/$RP"; else RP="$VERIF_DIR/$RP"; fi ;; esac
    "$VERIF_DIR/.build/simctl.$$" replay "$RP"; exit $? ;;
  selftest) shift; "$VERIF_DIR/.build/simctl.$$" selftest "$@"; exit $? ;;
  "") echo "usage: $0 <property-id> <quick|thorough> | replay <file> | selftest determinism [ids]" >&2; exit 2 ;;
  *) "$VERIF_DIR/.build/simctl.$$" check "$1" "${2:-quick}"; exit $? ;;
esac
